//! PRNG: SplitMix64 for seeding, xoshiro256** for the stream. No external crates.

#[inline]
pub fn splitmix64(state: &mut u64) -> u64 {
    *state = state.wrapping_add(0x9E37_79B9_7F4A_7C15);
    let mut z = *state;
    z = (z ^ (z >> 30)).wrapping_mul(0xBF58_476D_1CE4_E5B9);
    z = (z ^ (z >> 27)).wrapping_mul(0x94D0_49BB_1331_11EB);
    z ^ (z >> 31)
}

/// Mix a base seed, a scenario tag and a run index into one 64-bit seed.
pub fn mix(seed: u64, tag: u64, idx: u64) -> u64 {
    let mut s = seed ^ 0xA076_1D64_78BD_642F;
    let a = splitmix64(&mut s);
    let mut s2 = a ^ tag.wrapping_mul(0xE703_7ED1_A0B4_28DB);
    let b = splitmix64(&mut s2);
    let mut s3 = b ^ idx.wrapping_mul(0x8EBC_6AF0_9C88_C6E3);
    splitmix64(&mut s3)
}

pub fn fnv1a(bytes: &[u8]) -> u64 {
    let mut h = 0xcbf2_9ce4_8422_2325u64;
    for b in bytes {
        h ^= u64::from(*b);
        h = h.wrapping_mul(0x0000_0100_0000_01B3);
    }
    h
}

#[derive(Clone, Debug)]
pub struct Xoshiro {
    s: [u64; 4],
}

impl Xoshiro {
    pub fn new(seed: u64) -> Self {
        let mut st = seed;
        let s = [
            splitmix64(&mut st),
            splitmix64(&mut st),
            splitmix64(&mut st),
            splitmix64(&mut st),
        ];
        Self { s }
    }

    #[inline]
    pub fn next_u64(&mut self) -> u64 {
        let result = self.s[1].wrapping_mul(5).rotate_left(7).wrapping_mul(9);
        let t = self.s[1] << 17;
        self.s[2] ^= self.s[0];
        self.s[3] ^= self.s[1];
        self.s[1] ^= self.s[2];
        self.s[0] ^= self.s[3];
        self.s[2] ^= t;
        self.s[3] = self.s[3].rotate_left(45);
        result
    }

    /// Uniform in [0, bound) (bound >= 1); multiply-shift, negligible bias for the small bounds used here.
    #[inline]
    pub fn below(&mut self, bound: u64) -> u64 {
        debug_assert!(bound >= 1);
        ((u128::from(self.next_u64()) * u128::from(bound)) >> 64) as u64
    }
}
