//! Seeded workload generator: small-alphabet random datasets plus a few guaranteed shapes.
//! This is input sampling (stated plainly in DESIGN.md §4.3); it is what a simulation needs as
//! workload, not what makes the checks simulation.

use crate::model::*;
use crate::tape::Tape;

pub const XSD: &str = "http://www.w3.org/2001/XMLSchema#";

pub const IRI_POOL: &[&str] = &[
    "http://example.org/a",
    "http://example.org/b",
    "http://example.org/ns/c",
    "http://example.org/ns#d",
    "http://example.org/ns#",
    "http://example.org/",
    "http://other.example/x/y",
    "urn:x:e",
    "http://example.org/a%20b",
    "http://example.org/\u{e9}t\u{e9}",
    "http://example.org/a.b",
    "http://example.org/a.",
    "http://example.org/1a",
    "http://example.org/a/",
    "http://example.org/ns/a:b",
    "http://example.org/ns/a~b",
    "http://example.org/ns/a,b;c",
    "http://example.org/ns/a(b)",
    "http://example.org/ns/-a",
    "http://example.org/ns/a-b_c",
    "http://example.org/ns/a?q=1",
    "http://example.org/ns/%41",
    "http://example.org/ns/a*b!c$d&e'f+g=h@i",
    "http://example.org/ns/c/d",
    "http://example.org/ns/\u{1F600}",
    "http://example.org",
    "tag:x",
    "http://www.w3.org/1999/02/22-rdf-syntax-ns#type",
    "http://www.w3.org/1999/02/22-rdf-syntax-ns#first",
    "http://www.w3.org/1999/02/22-rdf-syntax-ns#rest",
    "http://www.w3.org/1999/02/22-rdf-syntax-ns#nil",
    "http://www.w3.org/1999/02/22-rdf-syntax-ns#List",
    "http://www.w3.org/1999/02/22-rdf-syntax-ns#value",
    "http://www.w3.org/1999/02/22-rdf-syntax-ns#direction",
    "http://www.w3.org/1999/02/22-rdf-syntax-ns#language",
    "http://www.w3.org/1999/02/22-rdf-syntax-ns#li",
    "http://www.w3.org/1999/02/22-rdf-syntax-ns#_1",
    "http://www.w3.org/2001/XMLSchema#integer",
];

pub const REL_IRI_POOL: &[&str] = &["", "rel", "../up", "#frag", "?q", "//auth/p", "a/b"];

pub const BNODE_POOL: &[&str] = &[
    "b0", "b1", "b2", "b3", "a.b", "1x", "x\u{b7}y", "\u{e9}", "b-2", "b_3", "0", "_u",
];

pub const LEX_POOL: &[&str] = &[
    "",
    "a",
    "hello world",
    "\"",
    "\\",
    "a\"b\\c",
    "\n",
    "\r",
    "\t",
    "\r\n",
    "line1\nline2",
    "\u{1}",
    "\u{7f}",
    "\u{0}",
    "\u{1F600}",
    "e\u{301}",
    "  lead and trail  ",
    "\u{8}\u{c}",
    "'",
    "'''",
    "\"\"\"",
    "a\"\"",
    "<&>",
    "]]>",
    "<a>b</a>",
    "&amp;",
    "1",
    "01",
    "+1",
    "-1",
    "-1.5",
    "1.0",
    "1.",
    ".5",
    "1e3",
    "1E-3",
    "1.5e",
    "1.0E0",
    "true",
    "false",
    "TRUE",
    "0",
    "NaN",
    "INF",
    "\u{fffe}",
    "\u{ffff}",
    "\u{e000}",
    "a\u{a0}b",
    "\u{85}",
    "\u{2028}",
    "\n\nx\n",
    " ",
    "\\u0041",
    "{\"a\":1}",
    "[1,2]",
    "null",
    "\u{feff}",
    "a\u{feff}b",
    "&quot;",
    "say &quot;hi&quot; &apos;",
    "&lt;&gt;",
    "&#65;&#x41;",
    "&amp;quot;",
    "\u{664}\u{662}",
    "\u{ff11}\u{ff12}",
    "\u{967}.\u{96b}",
    "\u{663}e\u{662}",
    "-\u{6f1}",
    "@en",
    "^^",
    "_:b0",
    "<x>",
];

pub const DT_POOL: &[&str] = &[
    "http://www.w3.org/2001/XMLSchema#string",
    "http://www.w3.org/2001/XMLSchema#integer",
    "http://www.w3.org/2001/XMLSchema#decimal",
    "http://www.w3.org/2001/XMLSchema#double",
    "http://www.w3.org/2001/XMLSchema#boolean",
    "http://example.org/dt",
    "http://www.w3.org/1999/02/22-rdf-syntax-ns#XMLLiteral",
    "http://www.w3.org/1999/02/22-rdf-syntax-ns#JSON",
    "http://www.w3.org/2001/XMLSchema#int",
    "http://www.w3.org/2001/XMLSchema#float",
    "http://www.w3.org/1999/02/22-rdf-syntax-ns#HTML",
    "http://www.w3.org/2001/XMLSchema#dateTime",
    "https://www.w3.org/ns/i18n#en_ltr",
];

pub const TAG_POOL: &[&str] = &[
    "en", "EN", "en-US", "en-us", "fr-BE", "zh-Hant-TW", "x-foo", "de-1996", "En-gb",
    // singleton subtags (extensions, private use), grandfathered, long and numeric subtags
    "de-x-formal", "en-u-ca-gregory", "zh-t-en", "sr-Latn-RS-a-bcd", "en-a-b1", "i-klingon",
    "es-419", "de-CH-1901", "abcdefgh-abcdefgh",
];

pub const VAR_POOL: &[&str] = &["x", "y", "v1", "_z", "0"];

/// What a format can express / what the scenario wants.
#[derive(Clone, Debug)]
pub struct Profile {
    /// quoted triples allowed (subject/object)
    pub star: bool,
    /// anything anywhere: literals/variables/bnodes as predicates, relative IRIs, ...
    pub generalized: bool,
    /// named graphs allowed
    pub graphs: bool,
    /// variables allowed (only meaningful with generalized)
    pub vars: bool,
    /// restrict literal text to XML 1.0 legal characters
    pub xml_chars: bool,
    /// restrict lexical forms: drop U+0000
    pub no_nul: bool,
    /// relative IRI references allowed (only with generalized)
    pub rel_iris: bool,
    pub max_quads: usize,
    pub max_bnodes: usize,
    /// probability (x/8) to mix in a guaranteed shape
    pub shapes: bool,
}

impl Profile {
    pub fn strict() -> Self {
        Self {
            star: false,
            generalized: false,
            graphs: true,
            vars: false,
            xml_chars: false,
            no_nul: false,
            rel_iris: false,
            max_quads: 12,
            max_bnodes: 6,
            shapes: true,
        }
    }
    pub fn star() -> Self {
        Self {
            star: true,
            ..Self::strict()
        }
    }
    pub fn generalized() -> Self {
        Self {
            star: true,
            generalized: true,
            vars: true,
            rel_iris: true,
            ..Self::strict()
        }
    }
}

/// The per-run alphabet (small on purpose: collisions are the point).
#[derive(Clone, Debug)]
pub struct Alphabet {
    pub iris: Vec<String>,
    pub bnodes: Vec<String>,
    pub lits: Vec<MTerm>,
    pub graphs: Vec<Option<MTerm>>,
    pub vars: Vec<String>,
    pub rel_iris: Vec<String>,
}

pub fn is_xml_char(c: char) -> bool {
    matches!(c, '\u{9}' | '\u{A}' | '\u{D}' | '\u{20}'..='\u{D7FF}' | '\u{E000}'..='\u{FFFD}' | '\u{10000}'..='\u{10FFFF}')
}

pub fn draw_subset<'a>(t: &mut Tape, pool: &'a [&'a str], lo: usize, hi: usize) -> Vec<String> {
    let n = t.range(lo, hi.min(pool.len()));
    let mut out: Vec<String> = Vec::with_capacity(n);
    for _ in 0..n {
        let c = pool[t.below(pool.len())].to_string();
        if !out.contains(&c) {
            out.push(c);
        }
    }
    if out.is_empty() && lo > 0 {
        out.push(pool[0].to_string());
    }
    out
}

/// A Unicode scalar value drawn by class, so that every C0/C1 control, the BMP, the astral
/// planes and the noncharacters are all reachable (the pool alone names only a few of them).
pub fn draw_char(t: &mut Tape) -> char {
    // scalar values with a role of their own in text encodings and line handling
    const SPECIAL: &[u32] = &[
        0xFEFF, 0xFFFE, 0xFFFD, 0xFFFF, 0x2028, 0x2029, 0x85, 0xA0, 0x200B, 0x200E, 0xAD, 0xD7FF, 0xE000, 0x10FFFF, 0x1FFFE,
        0x7F, 0x0, 0xB, 0xC,
    ];
    let c = match t.draw(9) {
        8 => SPECIAL[t.below(SPECIAL.len())],
        0 | 1 => t.draw(0x20) as u32,                 // every C0 control
        2 => 0x7F + t.draw(0x21) as u32,              // DEL and C1
        3 => 0x20 + t.draw(0x5F) as u32,              // printable ASCII
        4 => 0xA0 + t.draw(0x2F60) as u32,            // Latin-1 .. CJK radicals
        5 => t.draw(0xD800) as u32,                   // anywhere below the surrogates
        6 => 0xE000 + t.draw(0x2000) as u32,          // private use .. specials (FFFE, FFFF)
        _ => 0x10000 + t.draw(0x100000) as u32,       // astral planes
    };
    char::from_u32(c).unwrap_or('\u{FFFD}')
}


/// A structured random absolute IRI: every RFC 3987 component is drawn separately, with
/// percent-escapes in both hex cases, ucschar / iprivate characters, IPv4/IPv6 hosts, userinfo,
/// ports, empty segments and dot segments. (Whether the toolkit's validator agrees with the
/// RFC is C09's business; here these IRIs are workload for parsers, serializers and stores.)
/// IRIs that serializers, parsers and stores treat specially (shorthands, keywords, elided
/// datatypes, list vocabulary ...).
pub const WELL_KNOWN: &[&str] = &[
    "http://www.w3.org/2001/XMLSchema#string",
    "http://www.w3.org/2001/XMLSchema#integer",
    "http://www.w3.org/2001/XMLSchema#decimal",
    "http://www.w3.org/2001/XMLSchema#double",
    "http://www.w3.org/2001/XMLSchema#boolean",
    "http://www.w3.org/1999/02/22-rdf-syntax-ns#langString",
    "http://www.w3.org/1999/02/22-rdf-syntax-ns#type",
    "http://www.w3.org/1999/02/22-rdf-syntax-ns#nil",
    "http://www.w3.org/1999/02/22-rdf-syntax-ns#first",
    "http://www.w3.org/1999/02/22-rdf-syntax-ns#rest",
    "http://www.w3.org/1999/02/22-rdf-syntax-ns#List",
    "http://www.w3.org/1999/02/22-rdf-syntax-ns#JSON",
    "http://www.w3.org/1999/02/22-rdf-syntax-ns#XMLLiteral",
    "http://www.w3.org/1999/02/22-rdf-syntax-ns#value",
    "http://www.w3.org/1999/02/22-rdf-syntax-ns#li",
    "http://www.w3.org/1999/02/22-rdf-syntax-ns#_1",
];

/// A near miss of a well-known IRI: same namespace and same ending, same beginning and longer,
/// one character short, other case. Code that recognises a well-known IRI by anything less
/// than equality (prefix, suffix, case-insensitive or split comparison) confuses the two.
pub fn near_miss(t: &mut Tape) -> String {
    let w = WELL_KNOWN[t.below(WELL_KNOWN.len())];
    let cut = w.rfind('#').map_or(w.len(), |i| i + 1);
    let (ns, local) = w.split_at(cut);
    match t.draw(6) {
        0 => format!("{ns}x{local}"),
        1 => format!("{ns}my-{local}"),
        2 => format!("{w}2"),
        3 => format!("{w}s"),
        4 => {
            let mut cs = local.chars();
            let first = cs.next().unwrap_or('x');
            let flipped = if first.is_uppercase() { first.to_ascii_lowercase() } else { first.to_ascii_uppercase() };
            format!("{ns}{flipped}{}", cs.as_str())
        }
        _ => w[..w.len() - 1].to_string(),
    }
}

/// A blank node label drawn by character class from the BLANK_NODE_LABEL production shared by
/// N-Triples, Turtle and TriG: `(PN_CHARS_U | [0-9]) ((PN_CHARS | '.')* PN_CHARS)?` (without
/// ':', which only N-Triples admits). Every pair "class after class" can occur, in particular
/// the characters that are PN_CHARS but not PN_CHARS_U right after a dot.
pub fn draw_bnode_label(t: &mut Tape) -> String {
    // PN_CHARS_U | [0-9]
    const START: &[&str] = &["a", "Z", "_", "0", "7", "\u{c0}", "\u{e9}", "\u{37f}", "\u{200c}", "\u{2070}", "\u{3001}", "\u{4e2d}", "\u{fdf0}", "\u{10000}", "\u{effff}"];
    // PN_CHARS \ (PN_CHARS_U | [0-9])
    const ONLY_INNER: &[&str] = &["-", "\u{b7}", "\u{300}", "\u{36f}", "\u{203f}", "\u{2040}"];
    let mut s = START[t.below(START.len())].to_string();
    let n = t.below(5);
    for i in 0..n {
        let last = i + 1 == n;
        match t.draw(4) {
            // (no two dots in a row: the W3C grammar allows "a..a", but the toolkit's validator
            // and its parser dependency both refuse it, so no dataset can hold such a label)
            0 if !last && !s.ends_with('.') => s.push('.'),
            1 => s.push_str(ONLY_INNER[t.below(ONLY_INNER.len())]),
            _ => s.push_str(START[t.below(START.len())]),
        }
    }
    s
}

pub fn draw_iri(t: &mut Tape) -> String {
    fn chunk(t: &mut Tape, extra: &[&str]) -> String {
        const COMMON: &[&str] = &[
            "a", "b", "Z", "0", "9", "-", ".", "_", "~", "%41", "%c3%a9", "%C3%A9", "%e2%82%ac", "%7e", "%2F",
            "%2f", "!", "$", "&", "'", "(", ")", "*", "+", ",", ";", "=", "\u{e9}", "\u{4e2d}", "\u{1F600}",
            "\u{a0}", "\u{d7ff}", "\u{f900}", "\u{e1000}",
        ];
        let n = t.range(0, 4);
        let mut s = String::new();
        for _ in 0..n {
            let k = t.below(COMMON.len() + extra.len());
            s.push_str(if k < COMMON.len() { COMMON[k] } else { extra[k - COMMON.len()] });
        }
        s
    }
    let scheme = ["http", "https", "urn", "x-a.b+c", "HTTP", "tag", "file"][t.below(7)];
    let mut s = format!("{scheme}:");
    if t.chance(3, 4) {
        s.push_str("//");
        if t.chance(1, 4) {
            s.push_str(&chunk(t, &[":"]));
            s.push('@');
        }
        match t.draw(6) {
            0 => s.push_str("[::1]"),
            1 => s.push_str("[2001:db8::ff00:42:8329]"),
            2 => s.push_str("[v1.a:b]"),
            3 => s.push_str("127.0.0.1"),
            4 => {
                s.push_str("ex");
                s.push_str(&chunk(t, &[]));
                s.push_str(".org");
            }
            _ => s.push_str("example.org"),
        }
        if t.chance(1, 4) {
            s.push_str([":", ":80", ":0", ":65536"][t.below(4)]);
        }
        let nseg = t.range(0, 3);
        for _ in 0..nseg {
            s.push('/');
            s.push_str(&match t.draw(6) {
                0 => String::new(),
                1 => "..".to_string(),
                2 => ".".to_string(),
                _ => chunk(t, &[":", "@"]),
            });
        }
    } else {
        // no authority: the path must not begin with "//"
        let path = chunk(t, &[":", "@", "/"]);
        let path = match path.strip_prefix("//") {
            Some(rest) => format!("/{}", rest.trim_start_matches('/')),
            None => path,
        };
        s.push_str(&path);
    }
    if t.chance(1, 3) {
        s.push('?');
        s.push_str(&chunk(t, &[":", "@", "/", "?", "\u{e000}", "\u{f0000}"]));
    }
    if t.chance(1, 2) {
        s.push('#');
        s.push_str(&chunk(t, &[":", "@", "/", "?"]));
    }
    s
}

pub fn draw_literal(t: &mut Tape, p: &Profile) -> MTerm {
    let mut lex = LEX_POOL[t.below(LEX_POOL.len())].to_string();
    if t.chance(1, 6) {
        // concatenate two pool entries: escapes next to each other, next to token edges
        lex.push_str(LEX_POOL[t.below(LEX_POOL.len())]);
    }
    if t.chance(1, 48) {
        // a long run without any escape, around typical buffer sizes (a token that does not fit
        // an internal buffer takes another path in buffered writers)
        let n = [1023usize, 1024, 1025, 4095, 4096, 4097, 8192, 8193, 65_537][t.below(9)];
        // plain units, and units that need escaping in most syntaxes: with the (random) length
        // of what precedes, an escape falls on every residue of any internal chunk size
        let unit = ["a", "\u{e9}", "ab ", "0", "\"", "\\", "\n", "a\r", "<&", "\u{1F600}\t"][t.below(10)];
        let mut run = String::with_capacity(n + 8);
        while run.len() < n {
            run.push_str(unit);
        }
        lex.push_str(&run);
        if t.flag() {
            lex.push_str(LEX_POOL[t.below(LEX_POOL.len())]);
        }
    }
    if t.chance(1, 4) {
        // a few scalar values drawn by class, spliced at either end
        let n = t.range(1, 3);
        for _ in 0..n {
            let c = draw_char(t);
            if t.flag() {
                lex.push(c);
            } else {
                lex.insert(0, c);
            }
        }
    }
    if p.xml_chars {
        lex.retain(is_xml_char);
    }
    if p.no_nul {
        lex.retain(|c| c != '\u{0}');
    }
    match t.below(3) {
        0 => MTerm::Lit(lex, XSD_STRING.to_string()),
        1 => {
            let dt = if t.chance(1, 10) {
                near_miss(t)
            } else if t.chance(1, 12) {
                // i18n datatypes (JSON-LD rdfDirection=i18n-datatype): language "_" direction,
                // well-formed and not
                const I18N: &[&str] = &[
                    "en_ltr", "_rtl", "en-US_rtl", "fr_ltr", "ar-EG_rtl", "en_", "_", "", "en", "en_up", "EN_ltr",
                    "en_ltr_x", "en_LTR", "e n_ltr",
                ];
                let v = I18N[t.below(I18N.len())].replace(' ', "%20");
                format!("https://www.w3.org/ns/i18n#{v}")
            } else {
                DT_POOL[t.below(DT_POOL.len())].to_string()
            };
            MTerm::Lit(lex, dt)
        }
        _ => {
            // every pool entry is well-formed BCP47: a tag the toolkit's validator refuses is
            // reported when the term is built (not silently replaced)
            let tag = TAG_POOL[t.below(TAG_POOL.len())];
            MTerm::Lang(lex, tag.to_string())
        }
    }
}

impl Alphabet {
    pub fn draw(t: &mut Tape, p: &Profile) -> Self {
        let mut iris = draw_subset(t, IRI_POOL, 2, 6);
        if t.chance(1, 8) {
            iris.push(near_miss(t));
        }
        if t.chance(1, 64) {
            // a very long IRI (data:-like): one token far beyond any internal buffer
            let n = [4096usize, 5000, 9000][t.below(3)];
            iris.push(format!("http://example.org/long/{}", "a".repeat(n)));
        }
        if t.chance(1, 3) {
            for _ in 0..t.range(1, 2) {
                let i = draw_iri(t);
                // terms are built through the validating constructors: keep what they accept
                // (C08 feeds the same generator to the parsers as raw text, unfiltered)
                if !iris.contains(&i) && sophia_api::term::IriRef::new(i.as_str()).is_ok() {
                    iris.push(i);
                }
            }
        }
        let mut bnodes = draw_subset(t, BNODE_POOL, 1, p.max_bnodes.max(1));
        if t.chance(1, 4) {
            // one label drawn by character class instead of taken from the pool
            let l = draw_bnode_label(t);
            if !bnodes.contains(&l) {
                let k = t.below(bnodes.len());
                bnodes[k] = l;
            }
        }
        let nl = t.range(1, 5);
        let lits = (0..nl).map(|_| draw_literal(t, p)).collect();
        let mut graphs: Vec<Option<MTerm>> = vec![None];
        if p.graphs {
            let ng = t.below(4);
            for _ in 0..ng {
                if t.chance(1, 3) {
                    graphs.push(Some(MTerm::Bnode(bnodes[t.below(bnodes.len())].clone())));
                } else {
                    graphs.push(Some(MTerm::Iri(
                        IRI_POOL[t.below(IRI_POOL.len())].to_string(),
                    )));
                }
            }
        }
        let vars = if p.vars {
            draw_subset(t, VAR_POOL, 1, 3)
        } else {
            vec![]
        };
        let rel_iris = if p.generalized && p.rel_iris {
            draw_subset(t, REL_IRI_POOL, 0, 2)
        } else {
            vec![]
        };
        Self {
            iris,
            bnodes,
            lits,
            graphs,
            vars,
            rel_iris,
        }
    }

    pub fn iri(&self, t: &mut Tape) -> MTerm {
        MTerm::Iri(self.iris[t.below(self.iris.len())].clone())
    }
    pub fn bnode(&self, t: &mut Tape) -> MTerm {
        MTerm::Bnode(self.bnodes[t.below(self.bnodes.len())].clone())
    }
    pub fn literal(&self, t: &mut Tape) -> MTerm {
        self.lits[t.below(self.lits.len())].clone()
    }

    /// any term allowed by the profile at nesting `depth`
    pub fn any_term(&self, t: &mut Tape, p: &Profile, depth: usize) -> MTerm {
        let k = t.below(8);
        match k {
            0 | 1 => self.iri(t),
            2 => self.bnode(t),
            3 | 4 => self.literal(t),
            5 if p.star && depth < 2 => self.quoted(t, p, depth + 1),
            6 if !self.vars.is_empty() => MTerm::Var(self.vars[t.below(self.vars.len())].clone()),
            7 if !self.rel_iris.is_empty() => {
                MTerm::Iri(self.rel_iris[t.below(self.rel_iris.len())].clone())
            }
            _ => self.iri(t),
        }
    }

    pub fn quoted(&self, t: &mut Tape, p: &Profile, depth: usize) -> MTerm {
        let [s, pr, o] = self.triple(t, p, depth);
        MTerm::Triple(Box::new([s, pr, o]))
    }

    pub fn subject(&self, t: &mut Tape, p: &Profile, depth: usize) -> MTerm {
        if p.generalized {
            return self.any_term(t, p, depth);
        }
        match t.below(6) {
            0..=2 => self.iri(t),
            3 | 4 => self.bnode(t),
            _ if p.star && depth < 2 => self.quoted(t, p, depth + 1),
            _ => self.bnode(t),
        }
    }

    pub fn predicate(&self, t: &mut Tape, p: &Profile, depth: usize) -> MTerm {
        if p.generalized && t.chance(1, 3) {
            return self.any_term(t, p, depth);
        }
        self.iri(t)
    }

    pub fn object(&self, t: &mut Tape, p: &Profile, depth: usize) -> MTerm {
        if p.generalized {
            return self.any_term(t, p, depth);
        }
        match t.below(8) {
            0 | 1 => self.iri(t),
            2 | 3 => self.bnode(t),
            4..=6 => self.literal(t),
            _ if p.star && depth < 2 => self.quoted(t, p, depth + 1),
            _ => self.literal(t),
        }
    }

    pub fn triple(&self, t: &mut Tape, p: &Profile, depth: usize) -> MTriple {
        [
            self.subject(t, p, depth),
            self.predicate(t, p, depth),
            self.object(t, p, depth),
        ]
    }

    pub fn graph(&self, t: &mut Tape, p: &Profile) -> Option<MTerm> {
        if p.generalized && p.graphs && t.chance(1, 6) {
            return Some(self.any_term(t, p, 1));
        }
        self.graphs[t.below(self.graphs.len())].clone()
    }

    pub fn quad(&self, t: &mut Tape, p: &Profile) -> MQuad {
        (self.triple(t, p, 0), self.graph(t, p))
    }
}

fn rdf(local: &str) -> MTerm {
    MTerm::Iri(format!("{RDF}{local}"))
}

/// Guaranteed shapes mixed into the random statements.
pub fn add_shape(t: &mut Tape, a: &Alphabet, p: &Profile, out: &mut Vec<MQuad>) -> &'static str {
    let g = a.graph(t, p);
    let g = match g {
        Some(MTerm::Iri(_)) | Some(MTerm::Bnode(_)) | None => g,
        _ => None,
    };
    // blank nodes of the shape: three times out of four labels of its own (a clean structure,
    // disturbed only by what the shape itself adds), otherwise the few labels of the alphabet,
    // which the random statements and the other shapes use too
    let own = if t.chance(3, 4) { Some(out.len()) } else { None };
    let bn = |i: usize| match own {
        Some(k) => MTerm::Bnode(format!("s{k}n{i}")),
        None => MTerm::Bnode(a.bnodes[i % a.bnodes.len()].clone()),
    };
    let kind = t.below(11);
    match kind {
        0 => {
            // well-formed list of n items hanging off a subject
            let n = if own.is_some() { t.range(1, 3) } else { t.range(1, 3).min(a.bnodes.len()) };
            let head = bn(0);
            let parent_pred = if t.chance(1, 8) { rdf("type") } else { a.iri(t) };
            out.push(([a.iri(t), parent_pred, head.clone()], g.clone()));
            for i in 0..n {
                out.push(([bn(i), rdf("first"), a.object(t, &Profile::strict(), 2)], g.clone()));
                let rest = if i + 1 < n { bn(i + 1) } else { rdf("nil") };
                out.push(([bn(i), rdf("rest"), rest], g.clone()));
                // a list node may carry more than rdf:first / rdf:rest: its type, another type,
                // another property (each makes folding it into a collection lossy or not)
                if t.chance(1, 6) {
                    out.push(([bn(i), rdf("type"), rdf("List")], g.clone()));
                }
                if t.chance(1, 8) {
                    out.push(([bn(i), rdf("type"), a.iri(t)], g.clone()));
                }
                if t.chance(1, 10) {
                    out.push(([bn(i), a.iri(t), a.literal(t)], g.clone()));
                }
            }
            // what typically interferes with folding a list: more references to its nodes —
            // through rdf:type, to a middle node (shared tail), from another graph — and a
            // node that also names a graph
            let k = t.below(n);
            match t.below(12) {
                0 => out.push(([a.iri(t), rdf("type"), head.clone()], g.clone())),
                1 => out.push(([a.iri(t), a.iri(t), bn(k)], g.clone())),
                2 => {
                    let g2 = a.graphs[t.below(a.graphs.len())].clone();
                    // (before or after the list itself: arrival order matters to streaming code)
                    // (as object there it gains a second parent; as subject it only gains a
                    // second graph)
                    let q = if t.flag() {
                        ([a.iri(t), a.iri(t), bn(k)], g2)
                    } else {
                        ([bn(k), a.iri(t), a.object(t, &Profile::strict(), 2)], g2)
                    };
                    if t.flag() {
                        out.insert(0, q);
                    } else {
                        out.push(q);
                    }
                }
                3 if p.graphs => out.push(([a.iri(t), a.iri(t), a.object(t, &Profile::strict(), 2)], Some(bn(k)))),
                4 => out.push(([head.clone(), rdf("type"), a.iri(t)], g.clone())),
                _ => {}
            }
            "list"
        }
        1 => {
            // cycle of n blank nodes
            let n = t.range(1, 4).min(a.bnodes.len());
            let pr = a.iri(t);
            for i in 0..n {
                out.push(([bn(i), pr.clone(), bn((i + 1) % n)], g.clone()));
            }
            "cycle"
        }
        2 => {
            // star: one blank node with several properties, referenced once
            out.push(([a.iri(t), a.iri(t), bn(0)], g.clone()));
            for _ in 0..t.range(1, 3) {
                out.push(([bn(0), a.iri(t), a.object(t, &Profile::strict(), 2)], g.clone()));
            }
            "star"
        }
        3 => {
            // list shared by two parents
            out.push(([a.iri(t), a.iri(t), bn(0)], g.clone()));
            out.push(([a.iri(t), a.iri(t), bn(0)], g.clone()));
            out.push(([bn(0), rdf("first"), a.literal(t)], g.clone()));
            out.push(([bn(0), rdf("rest"), rdf("nil")], g.clone()));
            "shared_list"
        }
        4 => {
            // list split across graphs
            let g2 = a.graphs[t.below(a.graphs.len())].clone();
            out.push(([a.iri(t), a.iri(t), bn(0)], g.clone()));
            out.push(([bn(0), rdf("first"), a.literal(t)], g.clone()));
            out.push(([bn(0), rdf("rest"), rdf("nil")], g2));
            "split_list"
        }
        5 => {
            // branching / malformed list: two rdf:first, or rest to a non-list
            out.push(([a.iri(t), a.iri(t), bn(0)], g.clone()));
            out.push(([bn(0), rdf("first"), a.literal(t)], g.clone()));
            if t.flag() {
                out.push(([bn(0), rdf("first"), a.iri(t)], g.clone()));
            }
            let rest = match t.below(4) {
                0 => rdf("nil"),
                1 => bn(0),
                2 => a.iri(t),
                _ => bn(1),
            };
            out.push(([bn(0), rdf("rest"), rest], g.clone()));
            if t.flag() {
                out.push(([bn(0), rdf("type"), rdf("List")], g.clone()));
            }
            "odd_list"
        }
        6 => {
            // orphan list node: never an object of anything else; its item may be itself
            let item = match t.below(4) {
                0 => bn(0),
                1 => bn(1),
                _ => a.literal(t),
            };
            out.push(([bn(0), rdf("first"), item], g.clone()));
            out.push(([bn(0), rdf("rest"), rdf("nil")], g.clone()));
            "orphan_list"
        }
        7 => {
            // rdf:nil / rdf:type in unusual positions
            let o = if t.flag() { rdf("nil") } else { a.literal(t) };
            let s = if t.flag() { rdf("nil") } else { a.iri(t) };
            let pr = match t.below(3) {
                0 => rdf("nil"),
                1 => rdf("type"),
                _ => a.iri(t),
            };
            out.push(([s, pr, o], g.clone()));
            "nil_positions"
        }
        10 => {
            // compound literal (JSON-LD rdfDirection=compound-literal): a blank node carrying
            // rdf:value, rdf:direction and possibly rdf:language; well-formed or slightly off,
            // referenced 0..2 times, possibly with one more property
            let b = bn(0);
            let plain = |x: &str| MTerm::Lit(x.to_string(), XSD_STRING.to_string());
            let value = match t.below(4) {
                0 => a.literal(t),
                1 => plain(""),
                _ => plain("v"),
            };
            let dir = match t.below(6) {
                0 => plain(""),
                1 => plain("LTR"),
                2 => MTerm::Lang("ltr".into(), "en".into()),
                3 => plain("rtl"),
                _ => plain("ltr"),
            };
            out.push(([b.clone(), rdf("value"), value], g.clone()));
            out.push(([b.clone(), rdf("direction"), dir], g.clone()));
            match t.below(5) {
                0 => out.push(([b.clone(), rdf("language"), plain("en-US")], g.clone())),
                1 => out.push(([b.clone(), rdf("language"), plain("not a tag")], g.clone())),
                2 => out.push(([b.clone(), rdf("language"), plain("fr")], g.clone())),
                _ => {}
            }
            if t.chance(1, 6) {
                out.push(([b.clone(), a.iri(t), a.literal(t)], g.clone()));
            }
            for _ in 0..t.below(3) {
                out.push(([a.iri(t), a.iri(t), b.clone()], g.clone()));
            }
            if t.chance(1, 8) {
                // also referenced from another graph
                let g2 = a.graphs[t.below(a.graphs.len())].clone();
                out.push(([a.iri(t), a.iri(t), b.clone()], g2));
            }
            "compound_literal"
        }
        9 => {
            // concatenation-ambiguous names: IRIs A, A+B, B+C, C used pairwise so that the
            // concatenations (A, B+C) and (A+B, C) coincide (composite keys, prefix + suffix
            // splits, "graph id followed by node id" and the like must keep them apart)
            let pick = |t: &mut Tape| match a.iri(t) {
                MTerm::Iri(i) => i,
                _ => IRI_POOL[0].to_string(),
            };
            let (x, y, z) = (pick(t), pick(t), pick(t));
            let (xy, yz) = (format!("{x}{y}"), format!("{y}{z}"));
            // RFC 3987 validity of the concatenations is established here, conservatively and
            // without the toolkit's validator: the head must already be in its path or query
            // (so the tail lands there) and have no fragment; the tail may bring at most its
            // own '#', and no IP-literal brackets (illegal outside the authority)
            let head_ok = |h: &str| {
                !h.contains('#')
                    && match h.split_once("://") {
                        Some((_, rest)) => rest.contains('/'),
                        None => !h.contains("//"),
                    }
            };
            let tail_ok = |x: &str| !x.contains('[') && !x.contains(']');
            let ok = |i: &str| sophia_api::term::IriRef::new(i).is_ok();
            if head_ok(&x) && head_ok(&y) && tail_ok(&y) && tail_ok(&z) && ok(&xy) && ok(&yz) {
                let iri = |i: &str| MTerm::Iri(i.to_string());
                let pr = a.iri(t);
                let (o1, o2) = (a.literal(t), a.literal(t));
                match (p.graphs, t.below(3)) {
                    (true, 0) => {
                        // (graph, subject)
                        out.push(([iri(&yz), pr.clone(), o1], Some(iri(&x))));
                        out.push(([iri(&z), pr, o2], Some(iri(&xy))));
                    }
                    (_, 1) => {
                        // (subject, predicate)
                        out.push(([iri(&x), iri(&yz), o1], g.clone()));
                        out.push(([iri(&xy), iri(&z), o2], g.clone()));
                    }
                    _ => {
                        // (predicate, object)
                        let sb = a.iri(t);
                        out.push(([sb.clone(), iri(&x), iri(&yz)], g.clone()));
                        out.push(([sb, iri(&xy), iri(&z)], g.clone()));
                    }
                }
            }
            "concat_family"
        }
        _ => {
            // asserted and quoted
            if p.star {
                let tr = a.triple(t, &Profile::strict(), 2);
                out.push((tr.clone(), g.clone()));
                out.push((
                    [MTerm::Triple(Box::new(tr)), a.iri(t), a.object(t, &Profile::strict(), 2)],
                    g.clone(),
                ));
                "asserted_quoted"
            } else {
                out.push(([bn(0), a.iri(t), bn(0)], g.clone()));
                "self_loop"
            }
        }
    }
}

/// Lower-case language tags everywhere (the model's normal form).
pub fn norm_term(t: &MTerm) -> MTerm {
    match t {
        MTerm::Lang(l, tag) => MTerm::Lang(l.clone(), tag.to_ascii_lowercase()),
        MTerm::Triple(tr) => MTerm::Triple(Box::new([
            norm_term(&tr[0]),
            norm_term(&tr[1]),
            norm_term(&tr[2]),
        ])),
        other => other.clone(),
    }
}

pub fn norm_quad(q: &MQuad) -> MQuad {
    (
        [norm_term(&q.0[0]), norm_term(&q.0[1]), norm_term(&q.0[2])],
        q.1.as_ref().map(norm_term),
    )
}

/// A dataset as an ordered list (may contain duplicates: the order and multiplicity in which
/// statements reach a serializer is part of the workload).
pub fn gen_dataset(t: &mut Tape, p: &Profile) -> (Alphabet, Vec<MQuad>, Vec<&'static str>) {
    let a = Alphabet::draw(t, p);
    let n = t.range(0, p.max_quads);
    let mut out = Vec::with_capacity(n + 8);
    let mut shapes = Vec::new();
    for _ in 0..n {
        if p.shapes && t.chance(1, 8) {
            shapes.push(add_shape(t, &a, p, &mut out));
        } else {
            out.push(a.quad(t, p));
        }
    }
    if !p.graphs {
        for q in &mut out {
            q.1 = None;
        }
    }
    if !p.star {
        out.retain(|q| !q.0.iter().any(|x| matches!(x, MTerm::Triple(_))));
    }
    // arrival order: a dataset is a set, but streaming consumers see a sequence; as generated
    // (shapes contiguous, referrer before the structure it points to), reversed, or shuffled
    match t.below(4) {
        0 => {}
        1 => out.reverse(),
        _ => {
            for i in (1..out.len()).rev() {
                let j = t.below(i + 1);
                out.swap(i, j);
            }
        }
    }
    (a, out, shapes)
}
