//! Control of `RandomState` (HashMap/HashSet iteration order).
//!
//! std obtains its hash keys through a *weak* `getrandom` symbol on Linux; a strong definition
//! in the final binary interposes it. Keys are fetched once per thread, so a run that wants a
//! given hash seed executes on a fresh thread after `set_thread_hash_seed`.
//!
//! The definition itself must live in the binary crate: use `simcore::install_getrandom!()`.

use std::cell::Cell;

thread_local! {
    pub static HASH_SEED: Cell<u64> = const { Cell::new(0x5EED_5EED_5EED_5EED) };
    pub static HASH_CALLS: Cell<u64> = const { Cell::new(0) };
}

pub fn set_thread_hash_seed(seed: u64) {
    HASH_SEED.with(|s| s.set(seed ^ 0x5EED_5EED_5EED_5EED));
    HASH_CALLS.with(|c| c.set(0));
}

/// Fill `buf` deterministically from the thread's seed (called by the interposed `getrandom`).
pub fn fill(buf: &mut [u8]) {
    let seed = HASH_SEED.with(Cell::get);
    let n = HASH_CALLS.with(|c| {
        let v = c.get();
        c.set(v + 1);
        v
    });
    let mut st = seed ^ n.wrapping_mul(0x9E37_79B9_7F4A_7C15);
    for chunk in buf.chunks_mut(8) {
        let v = crate::rng::splitmix64(&mut st).to_le_bytes();
        chunk.copy_from_slice(&v[..chunk.len()]);
    }
}

#[macro_export]
macro_rules! install_getrandom {
    () => {
        /// Interposes libc's getrandom (std binds to it weakly): hash seeds become a function
        /// of the run's tape. Nothing else in these binaries needs real randomness.
        #[cfg(not(miri))]
        #[unsafe(no_mangle)]
        pub unsafe extern "C" fn getrandom(
            buf: *mut ::libc::c_void,
            len: ::libc::size_t,
            _flags: ::libc::c_uint,
        ) -> ::libc::ssize_t {
            let slice = unsafe { ::std::slice::from_raw_parts_mut(buf.cast::<u8>(), len) };
            $crate::hashseed::fill(slice);
            len as ::libc::ssize_t
        }
    };
}

/// Startup self-test: same seed => same RandomState behaviour, different seed => different.
pub fn selftest() -> Result<(), String> {
    fn probe(seed: u64) -> u64 {
        std::thread::spawn(move || {
            set_thread_hash_seed(seed);
            use std::hash::{BuildHasher, Hasher};
            let rs = std::collections::hash_map::RandomState::new();
            let mut h = rs.build_hasher();
            h.write(b"probe");
            h.finish()
        })
        .join()
        .unwrap()
    }
    let a = probe(1);
    let b = probe(1);
    let c = probe(2);
    if a != b {
        return Err("getrandom interposition inactive: same seed gave different hash keys".into());
    }
    if a == c {
        return Err("getrandom interposition inactive: different seeds gave equal hash keys".into());
    }
    Ok(())
}
