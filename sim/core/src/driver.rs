//! Parent/worker driver, shrinker, replay files, evidence writer, determinism audit.
//!
//! Exit codes of `check`: 0 = property held on everything explored, 1 = violation (with a
//! `VIOLATION property=<id> replay=<path>` line), 2 = harness error (never a verdict).

use crate::ctx::{Counters, Ctx, Verdict, Violation};
use crate::rng::mix;
use crate::tape::Tape;
use serde_json::{Value, json};
use std::cell::RefCell;
use std::collections::{BTreeMap, BTreeSet};
use std::io::Write as _;
use std::path::{Path, PathBuf};
use std::process::{Command, Stdio};
use std::sync::mpsc;
use std::time::{Duration, Instant};

pub struct Scenario {
    pub property: &'static str,
    /// distinguishes seeds of different scenarios
    pub tag: u64,
    pub run: fn(&mut Ctx) -> Verdict,
    pub quick_runs: u64,
    pub thorough_runs: u64,
    pub level: &'static str,
    pub rule: &'static str,
    pub real_components: &'static [&'static str],
    pub stub_components: &'static [&'static str],
    pub assumptions: &'static [&'static str],
    /// a panic inside /repo or its dependencies violates this property
    pub panic_is_violation: bool,
    /// death of the worker process (stack overflow, abort) or a hang violates this property
    pub death_is_violation: bool,
    pub shrink_budget: usize,
    /// per-run wall-clock watchdog (only turns a genuine hang into a result)
    pub run_timeout_s: u64,
    /// optional extra step run once by the parent in thorough tier (e.g. Miri batch);
    /// returns violations found
    pub thorough_extra: Option<fn(&CheckEnv) -> Result<Vec<Found>, String>>,
    /// executed once per process before the first run (initialises lazy statics of the code
    /// under test so that the first run of a process does not differ from the others)
    pub warmup: Option<fn()>,
    /// an enumerable sub-space of the property's quantifier, exhausted in the thorough tier
    /// before the seeded search starts (run indexes 0..count are these cases)
    pub enumerated: Option<Enumerated>,
}

#[derive(Clone, Copy)]
pub struct Enumerated {
    pub count: fn() -> u64,
    pub run: fn(&mut Ctx, u64) -> Verdict,
    pub what: &'static str,
}

pub const DEFAULT_SEED: u64 = 20261003;
pub const STACK: usize = 2 * 1024 * 1024;

#[derive(Clone, Debug)]
pub struct Found {
    pub oracle: String,
    pub msg: String,
    pub replay: PathBuf,
    /// found (and to be replayed) by the release-profile twin
    pub release: bool,
}

pub struct CheckEnv {
    pub seed: u64,
    pub thorough: bool,
    pub verif_dir: PathBuf,
}

// ---------------------------------------------------------------------------------------------
// death notes: a scenario about to do something that may kill the process (stack overflow,
// abort) leaves a short description next to the current run index, so that the parent can say
// *what* died and known findings can be matched on it.

static CUR_FILE: std::sync::OnceLock<std::sync::Mutex<std::fs::File>> = std::sync::OnceLock::new();

pub fn set_death_note(note: &str) {
    if let Some(f) = CUR_FILE.get() {
        use std::os::unix::fs::FileExt;
        let f = f.lock().unwrap();
        let b = note.as_bytes();
        let n = b.len().min(200);
        let _ = f.write_all_at(&(n as u32).to_le_bytes(), 8);
        let _ = f.write_all_at(&b[..n], 12);
    } else if std::env::var_os("VERIF_LIVE_TRACE").is_some() {
        eprintln!("  ! {note}");
    }
}

// ---------------------------------------------------------------------------------------------
// panic capture

thread_local! {
    static PANIC_INFO: RefCell<Option<(String, String, u32)>> = const { RefCell::new(None) };
    /// what the scenario was doing (appended to the message of a panic violation, so that known
    /// findings can tell e.g. a panic on a corrupted document from one on a pristine document)
    static PANIC_CONTEXT: RefCell<String> = const { RefCell::new(String::new()) };
}

pub fn set_panic_context(s: &str) {
    PANIC_CONTEXT.with(|c| {
        let mut c = c.borrow_mut();
        c.clear();
        c.push_str(s);
    });
}

fn install_panic_hook() {
    std::panic::set_hook(Box::new(|info| {
        let msg = if let Some(s) = info.payload().downcast_ref::<&str>() {
            (*s).to_string()
        } else if let Some(s) = info.payload().downcast_ref::<String>() {
            s.clone()
        } else {
            "<non-string panic payload>".to_string()
        };
        let (file, line) = info
            .location()
            .map(|l| (l.file().to_string(), l.line()))
            .unwrap_or_else(|| ("<unknown>".into(), 0));
        PANIC_INFO.with(|p| *p.borrow_mut() = Some((msg, file, line)));
    }));
}

fn repo_prefix() -> String {
    // the code under test normally lives in /repo; a scratch copy can be named for experiments
    let mut p = std::env::var("VERIF_REPO_DIR").unwrap_or_else(|_| "/repo".to_string());
    if !p.ends_with('/') {
        p.push('/');
    }
    p
}

fn panic_in_code_under_test(file: &str) -> bool {
    file.starts_with(repo_prefix().as_str()) || file.starts_with("/root/.cargo/") || file.starts_with("/rustc/")
        || file.contains("/.cargo/registry/")
        || file.contains("/rustlib/")
}

// ---------------------------------------------------------------------------------------------
// one run

pub struct RunOut {
    pub verdict: Verdict,
    pub harness_error: Option<String>,
    pub tape: Vec<u64>,
    pub ev_hash: u64,
    pub events: u64,
    pub faults: Counters,
    pub probes: Counters,
    pub sig: u64,
    pub nontrivial: bool,
    pub trace: Vec<String>,
    pub sample: Vec<String>,
}

pub enum Exec {
    Done(Box<RunOut>),
    Hang,
}

static WARMUP: std::sync::Once = std::sync::Once::new();

pub fn exec_run(sc: &Scenario, tape: Tape, trace_on: bool, want_sample: bool) -> Exec {
    exec_run_case(sc, tape, trace_on, want_sample, None)
}

/// `case = Some(i)`: execute the i-th enumerated case instead of a seeded run.
pub fn exec_run_case(sc: &Scenario, tape: Tape, trace_on: bool, want_sample: bool, case: Option<u64>) -> Exec {
    if let Some(w) = sc.warmup {
        WARMUP.call_once(|| {
            // Several sequential threads: the regex crate keeps its per-regex caches in
            // `thread_id % 8` stacks and builds a cache (whose lazy-DFA state map is a std
            // HashMap, i.e. one RandomState::new()) whenever a stack is empty. Filling all
            // stacks up front makes the number of RandomState::new() calls a run performs
            // independent of which threads ran before it.
            for _ in 0..17 {
                let _ = std::thread::Builder::new()
                    .stack_size(STACK)
                    .spawn(move || {
                        crate::hashseed::set_thread_hash_seed(0);
                        let _ = std::panic::catch_unwind(w);
                    })
                    .expect("spawn warmup")
                    .join();
            }
        });
    }
    let run = sc.run;
    let enum_run = sc.enumerated.map(|e| e.run);
    let panic_is_violation = sc.panic_is_violation;
    let (tx, rx) = mpsc::channel();
    let handle = std::thread::Builder::new()
        .stack_size(STACK)
        .name("simrun".into())
        .spawn(move || {
            let mut ctx = Ctx::new(tape, trace_on);
            ctx.want_sample = want_sample || trace_on;
            // the hash seed of this thread comes from the tape, before any HashMap exists here
            let hs = ctx.tape.draw(1 << 32);
            crate::hashseed::set_thread_hash_seed(hs);
            PANIC_INFO.with(|p| *p.borrow_mut() = None);
            set_panic_context("");
            let res = std::panic::catch_unwind(std::panic::AssertUnwindSafe(|| match (case, enum_run) {
                (Some(i), Some(er)) => er(&mut ctx, i),
                _ => run(&mut ctx),
            }));
            let mut harness_error = None;
            let verdict = match res {
                Ok(v) => v,
                Err(_) => {
                    let (msg, file, line) = PANIC_INFO
                        .with(|p| p.borrow_mut().take())
                        .unwrap_or_else(|| ("<no panic info>".into(), "<unknown>".into(), 0));
                    if let Some(rest) = msg.strip_prefix("ORACLE:") {
                        Err(Violation::new("oracle_panic", rest.trim().to_string()))
                    } else if panic_in_code_under_test(&file) {
                        let short = file
                            .strip_prefix(repo_prefix().as_str())
                            .map(str::to_string)
                            .unwrap_or_else(|| {
                                // registry path: keep crate-version/relative part
                                file.rsplit_once("/src/")
                                    .map(|(a, b)| {
                                        format!(
                                            "{}/src/{}",
                                            a.rsplit('/').next().unwrap_or(""),
                                            b
                                        )
                                    })
                                    .unwrap_or(file.clone())
                            });
                        if panic_is_violation {
                            Err(Violation::new(
                                format!("panic@{short}"),
                                {
                                    let c = PANIC_CONTEXT.with(|c| c.borrow().clone());
                                    if c.is_empty() {
                                        format!("panicked at {short}:{line}: {msg}")
                                    } else {
                                        format!("panicked at {short}:{line}: {msg} [{c}]")
                                    }
                                },
                            ))
                        } else {
                            harness_error = Some(format!(
                                "panic in code under test at {file}:{line}: {msg} (property does not forbid panics; treated as harness error)"
                            ));
                            Ok(())
                        }
                    } else {
                        harness_error = Some(format!("harness panic at {file}:{line}: {msg}"));
                        Ok(())
                    }
                }
            };
            let nontrivial = ctx.fault_in_op || (ctx.ops >= 4 && ctx.probes.len() >= 2);
            let out = RunOut {
                verdict,
                harness_error,
                tape: std::mem::take(&mut ctx.tape.rec),
                ev_hash: ctx.ev_hash,
                events: ctx.events,
                faults: std::mem::take(&mut ctx.faults),
                probes: std::mem::take(&mut ctx.probes),
                sig: ctx.sig,
                nontrivial,
                trace: std::mem::take(&mut ctx.trace),
                sample: std::mem::take(&mut ctx.sample),
            };
            let _ = tx.send(out);
        })
        .expect("spawn run thread");
    match rx.recv_timeout(Duration::from_secs(sc.run_timeout_s.max(1))) {
        Ok(out) => {
            let _ = handle.join();
            Exec::Done(Box::new(out))
        }
        Err(mpsc::RecvTimeoutError::Timeout) => Exec::Hang,
        Err(mpsc::RecvTimeoutError::Disconnected) => {
            let _ = handle.join();
            Exec::Done(Box::new(RunOut {
                verdict: Ok(()),
                harness_error: Some("run thread vanished without a result".into()),
                tape: vec![],
                ev_hash: 0,
                events: 0,
                faults: Counters::new(),
                probes: Counters::new(),
                sig: 0,
                nontrivial: false,
                trace: vec![],
                sample: vec![],
            }))
        }
    }
}

// ---------------------------------------------------------------------------------------------
// shrinking

/// Does this tape still fail the same way? "The same way" is the same oracle id AND not one of
/// the listed known findings: several root causes can share an oracle id (a round-trip
/// mismatch is a round-trip mismatch), and a minimisation that drifts from an unlisted
/// violation into a listed one would make the parent file it as known and stay silent.
fn fails_same(sc: &Scenario, tape: &[u64], oracle: &str, known: &[Known]) -> Option<Vec<u64>> {
    match exec_run(sc, Tape::replay(tape.to_vec()), false, false) {
        Exec::Done(out) => match &out.verdict {
            Err(v)
                if v.oracle == oracle
                    && out.harness_error.is_none()
                    && known_match(known, sc.property, &v.oracle, &v.msg).is_none() =>
            {
                Some(out.tape)
            }
            _ => None,
        },
        Exec::Hang => None,
    }
}

/// Deterministic tape minimisation: truncate, delete spans, zero, halve/decrement.
pub fn shrink(sc: &Scenario, tape: Vec<u64>, oracle: &str, known: &[Known]) -> (Vec<u64>, usize) {
    let mut best = tape;
    let mut budget = sc.shrink_budget;
    let mut used = 0usize;
    let mut try_cand = |cand: Vec<u64>, best: &mut Vec<u64>, budget: &mut usize| -> bool {
        if *budget == 0 || cand == *best {
            return false;
        }
        *budget -= 1;
        used += 1;
        if let Some(norm) = fails_same(sc, &cand, oracle, known) {
            // adopt the normalised tape actually consumed (never longer than the candidate's use)
            *best = if norm.len() <= cand.len() { norm } else { cand };
            true
        } else {
            false
        }
    };
    // drop trailing zeros (replay answers 0 past the end anyway)
    while best.last() == Some(&0) {
        best.pop();
    }
    loop {
        let before = best.clone();
        // 1. truncation by halves
        let mut cut = best.len() / 2;
        while cut >= 1 && budget > 0 {
            if best.len() > cut {
                let cand = best[..best.len() - cut].to_vec();
                if try_cand(cand, &mut best, &mut budget) {
                    continue;
                }
            }
            cut /= 2;
        }
        // 2. delete spans
        let mut span = (best.len() / 2).max(1);
        while span >= 1 && budget > 0 {
            let mut i = 1; // keep entry 0 (hash seed) in place
            while i + span <= best.len() && budget > 0 {
                let mut cand = best.clone();
                cand.drain(i..i + span);
                if !try_cand(cand, &mut best, &mut budget) {
                    i += span.max(1);
                }
            }
            if span == 1 {
                break;
            }
            span /= 2;
        }
        // 3. zero entries (spans then singles)
        let mut span = (best.len() / 4).max(1);
        loop {
            let mut i = 0;
            while i < best.len() && budget > 0 {
                let end = (i + span).min(best.len());
                if best[i..end].iter().any(|v| *v != 0) {
                    let mut cand = best.clone();
                    for v in &mut cand[i..end] {
                        *v = 0;
                    }
                    try_cand(cand, &mut best, &mut budget);
                }
                i += span;
            }
            if span == 1 {
                break;
            }
            span /= 2;
        }
        // 4. shrink values
        let mut i = 0;
        while i < best.len() && budget > 0 {
            let v = best[i];
            if v > 1 {
                for nv in [1, v / 2, v - 1] {
                    if nv < best[i] {
                        let mut cand = best.clone();
                        cand[i] = nv;
                        if try_cand(cand, &mut best, &mut budget) {
                            break;
                        }
                    }
                }
            }
            i += 1;
        }
        while best.last() == Some(&0) {
            best.pop();
        }
        if best == before || budget == 0 {
            break;
        }
    }
    (best, used)
}

// ---------------------------------------------------------------------------------------------
// known findings

#[derive(Clone, Debug)]
pub struct Known {
    pub property: String,
    pub status: String,
    pub oracle: String,
    pub contains: String,
    /// further substrings that must all occur in the message
    pub contains_all: Vec<String>,
    pub what: String,
}

pub fn load_known(verif_dir: &Path) -> Result<Vec<Known>, String> {
    let p = verif_dir.join("known_findings.json");
    if !p.exists() {
        return Ok(vec![]);
    }
    let txt = std::fs::read_to_string(&p).map_err(|e| format!("{}: {e}", p.display()))?;
    let v: Value = serde_json::from_str(&txt).map_err(|e| format!("{}: {e}", p.display()))?;
    let mut out = vec![];
    for e in v
        .get("findings")
        .and_then(Value::as_array)
        .cloned()
        .unwrap_or_default()
    {
        let g = |k: &str| e.get(k).and_then(Value::as_str).unwrap_or("").to_string();
        out.push(Known {
            property: g("property"),
            status: g("status"),
            oracle: g("oracle"),
            contains: g("contains"),
            contains_all: e
                .get("contains_all")
                .and_then(Value::as_array)
                .map(|a| a.iter().filter_map(|x| x.as_str().map(str::to_string)).collect())
                .unwrap_or_default(),
            what: g("what"),
        });
    }
    Ok(out)
}

fn known_match<'a>(known: &'a [Known], prop: &str, oracle: &str, msg: &str) -> Option<&'a Known> {
    known.iter().find(|k| {
        k.status == "open"
            && k.property == prop
            && k.oracle == oracle
            && (k.contains.is_empty() || msg.contains(&k.contains))
            && k.contains_all.iter().all(|c| msg.contains(c.as_str()))
    })
}

// ---------------------------------------------------------------------------------------------
// replay files

#[allow(clippy::too_many_arguments)]
pub fn write_replay_case(
    path: &Path,
    sc: &Scenario,
    bin: &str,
    seed: u64,
    idx: u64,
    v: &Violation,
    tape: Option<&[u64]>,
    trace: &[String],
    note: &str,
    case: Option<u64>,
) -> std::io::Result<()> {
    write_replay(path, sc, bin, seed, idx, v, tape, trace, note)?;
    if let Some(c) = case {
        let txt = std::fs::read_to_string(path)?;
        let mut j: Value = serde_json::from_str(&txt).map_err(std::io::Error::other)?;
        j["enum_case"] = json!(c);
        std::fs::write(path, serde_json::to_string_pretty(&j).unwrap())?;
    }
    Ok(())
}

pub fn write_replay(
    path: &Path,
    sc: &Scenario,
    bin: &str,
    seed: u64,
    idx: u64,
    v: &Violation,
    tape: Option<&[u64]>,
    trace: &[String],
    note: &str,
) -> std::io::Result<()> {
    let trace: Vec<String> = trace.iter().map(|l| clean(l)).collect();
    let j = json!({
        "property": sc.property,
        "binary": bin,
        "seed": seed,
        "run_index": idx,
        "oracle": clean(&v.oracle),
        "violation": clean(&v.msg),
        "tape": tape,
        "note": note,
        "trace": trace,
        "profile": if cfg!(debug_assertions) { "dev (debug assertions on)" } else { "release (debug assertions off)" },
    });
    if let Some(d) = path.parent() {
        std::fs::create_dir_all(d)?;
    }
    std::fs::write(path, serde_json::to_string_pretty(&j).unwrap())
}

fn bin_name() -> String {
    std::env::current_exe()
        .ok()
        .and_then(|p| p.file_name().map(|s| s.to_string_lossy().to_string()))
        .unwrap_or_default()
}

static PROCESS_SCRATCH: std::sync::OnceLock<PathBuf> = std::sync::OnceLock::new();

/// A directory private to this process for scenarios that need real files (removed by the
/// parent together with its own scratch directory, or at the end of a replay).
pub fn process_scratch() -> PathBuf {
    PROCESS_SCRATCH
        .get_or_init(|| {
            let base = std::env::var("VERIF_SCRATCH")
                .map(PathBuf::from)
                .unwrap_or_else(|_| PathBuf::from("/dev/shm"));
            let d = base.join(format!("verif-proc-{}", std::process::id()));
            std::fs::create_dir_all(&d).expect("create process scratch dir");
            d
        })
        .clone()
}

fn remove_process_scratch() {
    if let Some(d) = PROCESS_SCRATCH.get() {
        let _ = std::fs::remove_dir_all(d);
    }
}

/// `replay <file>`: exit 1 iff the recorded violation reproduces (same oracle id).
fn cmd_replay(scenarios: &[Scenario], path: &str) -> i32 {
    let txt = match std::fs::read_to_string(path) {
        Ok(t) => t,
        Err(e) => {
            eprintln!("replay: {path}: {e}");
            return 2;
        }
    };
    let v: Value = match serde_json::from_str(&txt) {
        Ok(v) => v,
        Err(e) => {
            eprintln!("replay: {path}: {e}");
            return 2;
        }
    };
    let prop = v["property"].as_str().unwrap_or("");
    let Some(sc) = scenarios.iter().find(|s| s.property == prop) else {
        eprintln!("replay: property {prop} is not served by this binary");
        return 2;
    };
    if v["profile"].as_str().is_some_and(|p| p.starts_with("release")) && cfg!(debug_assertions) {
        if let Some(twin) = release_twin() {
            // this run was found by the release-profile twin: replay it there
            return Command::new(twin)
                .arg("replay")
                .arg(path)
                .status()
                .ok()
                .and_then(|s| s.code())
                .unwrap_or(2);
        }
        println!("note: this replay was recorded by the release-profile binary; set VERIF_RELEASE_BIN (bin/replay does) to replay it faithfully");
    }
    let oracle = v["oracle"].as_str().unwrap_or("").to_string();
    let tape = match v["tape"].as_array() {
        Some(a) => Tape::replay(a.iter().map(|x| x.as_u64().unwrap_or(0)).collect()),
        None => {
            let seed = v["seed"].as_u64().unwrap_or(DEFAULT_SEED);
            let idx = v["run_index"].as_u64().unwrap_or(0);
            Tape::record(mix(seed, sc.tag, idx))
        }
    };
    let case = v["enum_case"].as_u64();
    println!("replaying {path}: property={prop} expected oracle={oracle}{}", case.map_or(String::new(), |c| format!(" (enumerated case {c})")));
    match exec_run_case(sc, tape, true, true, case) {
        Exec::Hang => {
            println!("run exceeded the watchdog ({} s)", sc.run_timeout_s);
            if oracle == "hang" {
                println!("REPRODUCED oracle=hang");
                1
            } else {
                2
            }
        }
        Exec::Done(out) => {
            for l in &out.sample {
                for ll in l.lines() {
                    println!("  : {ll}");
                }
            }
            for l in &out.trace {
                println!("  | {l}");
            }
            if let Some(h) = &out.harness_error {
                println!("HARNESS ERROR: {h}");
                return 2;
            }
            match &out.verdict {
                Err(vi) if vi.oracle == oracle => {
                    println!("violation: [{}] {}", vi.oracle, vi.msg);
                    println!("REPRODUCED oracle={}", vi.oracle);
                    1
                }
                Err(vi) => {
                    println!("different violation: [{}] {}", vi.oracle, vi.msg);
                    println!("NOT-REPRODUCED (different oracle)");
                    3
                }
                Ok(()) => {
                    println!("NOT-REPRODUCED (run passed)");
                    0
                }
            }
        }
    }
}

// ---------------------------------------------------------------------------------------------
// worker

#[derive(Default)]
struct WorkerStats {
    evaluations: u64,
    nontrivial: u64,
    events: u64,
    tape_entries: u64,
    faults: BTreeMap<String, u64>,
    probes: BTreeMap<String, u64>,
    fault_free_runs: u64,
    faulted_runs: u64,
    sigs: BTreeSet<u64>,
    evhashes: BTreeSet<u64>,
    samples: Vec<Value>,
    violating_runs: u64,
    known_hits: BTreeMap<String, u64>,
    harness_errors: Vec<String>,
}

const SET_CAP: usize = 2_000_000;

struct WorkerArgs {
    prop: String,
    seed: u64,
    from: u64,
    to: u64,
    out: PathBuf,
    id: String,
    hashes: bool,
    verif_dir: PathBuf,
    /// run indexes below this are enumerated cases
    enum_n: u64,
}

fn cmd_worker(scenarios: &[Scenario], a: WorkerArgs) -> i32 {
    let Some(sc) = scenarios.iter().find(|s| s.property == a.prop) else {
        eprintln!("worker: unknown property {}", a.prop);
        return 2;
    };
    let known = match load_known(&a.verif_dir) {
        Ok(k) => k,
        Err(e) => {
            eprintln!("worker: {e}");
            return 2;
        }
    };
    let cur_path = a.out.join(format!("{}.cur", a.id));
    let mut cur = match std::fs::File::create(&cur_path) {
        Ok(f) => f,
        Err(e) => {
            eprintln!("worker: {}: {e}", cur_path.display());
            return 2;
        }
    };
    if let Ok(dup) = cur.try_clone() {
        let _ = CUR_FILE.set(std::sync::Mutex::new(dup));
    }
    {
        let d = a.out.join(format!("fs-{}", a.id));
        let _ = std::fs::create_dir_all(&d);
        let _ = PROCESS_SCRATCH.set(d);
    }
    let mut hashes_file = if a.hashes {
        Some(std::io::BufWriter::new(
            std::fs::File::create(a.out.join(format!("{}.hashes", a.id))).unwrap(),
        ))
    } else {
        None
    };
    let mut st = WorkerStats::default();
    let mut found: Vec<Value> = vec![];
    let mut seen_oracles: BTreeSet<String> = BTreeSet::new();
    let bin = bin_name();
    let replays_dir = a.verif_dir.join("replays");
    let mut idx = a.from;
    while idx < a.to {
        {
            use std::os::unix::fs::FileExt;
            let _ = cur.write_all_at(&idx.to_le_bytes(), 0);
            let _ = cur.write_all_at(&0u32.to_le_bytes(), 8);
        }
        let seed = mix(a.seed, sc.tag, idx);
        let want_sample = st.samples.len() < 2;
        let case = if idx < a.enum_n { Some(idx) } else { None };
        let out = match exec_run_case(sc, Tape::record(seed), false, want_sample, case) {
            Exec::Done(o) => o,
            Exec::Hang => {
                // cannot kill the thread: report and leave, the parent resumes after idx
                let _ = cur.flush();
                std::fs::write(a.out.join(format!("{}.hang", a.id)), idx.to_string()).ok();
                write_worker_result(&a, &st, &found, true);
                return 3;
            }
        };
        st.evaluations += 1;
        st.events += out.events;
        st.tape_entries += out.tape.len() as u64;
        if let Some(h) = &mut hashes_file {
            let code = match &out.verdict {
                Ok(()) => "ok".to_string(),
                Err(v) => v.oracle.clone(),
            };
            let _ = writeln!(h, "{idx} {:016x} {} {}", out.ev_hash, out.tape.len(), code);
            let _ = h.flush(); // a later run may kill the process
        }
        if let Some(h) = &out.harness_error {
            if st.harness_errors.len() < 5 {
                st.harness_errors.push(format!("run {idx}: {h}"));
            }
        }
        for (k, v) in &out.faults {
            *st.faults.entry((*k).to_string()).or_insert(0) += v;
        }
        for (k, v) in &out.probes {
            *st.probes.entry((*k).to_string()).or_insert(0) += v;
        }
        if out.faults.is_empty() {
            st.fault_free_runs += 1;
        } else {
            st.faulted_runs += 1;
        }
        if out.nontrivial {
            st.nontrivial += 1;
            if st.sigs.len() < SET_CAP {
                st.sigs.insert(out.sig);
            }
        }
        if st.evhashes.len() < SET_CAP {
            st.evhashes.insert(out.ev_hash);
        }
        if want_sample && out.nontrivial && !out.sample.is_empty() {
            let steps: Vec<String> = out.sample.iter().map(|l| clean(l)).collect();
            st.samples.push(json!({"run_index": idx, "seed": a.seed, "steps": steps}));
        }
        if let Err(v) = &out.verdict {
            st.violating_runs += 1;
            if let Some(k) = known_match(&known, sc.property, &v.oracle, &v.msg) {
                *st.known_hits.entry(k.what.clone()).or_insert(0) += 1;
            } else if seen_oracles.insert(v.oracle.clone()) && found.len() < 6 {
                // an enumerated case is already a minimal single-edit input: no shrinking
                let (min_tape, used) = if case.is_some() {
                    (out.tape.clone(), 0)
                } else {
                    shrink(sc, out.tape.clone(), &v.oracle, &known)
                };
                // re-run minimised tape with tracing for the replay file
                let (v2, trace) = match exec_run_case(sc, Tape::replay(min_tape.clone()), true, true, case) {
                    Exec::Done(o) => match o.verdict {
                        Err(v2) if v2.oracle == v.oracle && known_match(&known, sc.property, &v2.oracle, &v2.msg).is_none() => (v2, o.trace),
                        _ => (v.clone(), vec!["(minimised tape did not reproduce in-process; original kept)".into()]),
                    },
                    Exec::Hang => (v.clone(), vec![]),
                };
                let fname = format!(
                    "{}-{}-{}-{}.json",
                    sc.property,
                    sanitize(&v.oracle),
                    a.seed,
                    idx
                );
                let path = replays_dir.join(fname);
                let note = format!(
                    "minimised from {} to {} tape entries in {} candidate runs",
                    out.tape.len(),
                    min_tape.len(),
                    used
                );
                let note = match case {
                    Some(i) => format!("enumerated case {i} ({}); not a seeded run", sc.enumerated.map_or("", |e| e.what)),
                    None => note,
                };
                if let Err(e) =
                    write_replay_case(&path, sc, &bin, a.seed, idx, &v2, Some(&min_tape), &trace, &note, case)
                {
                    st.harness_errors.push(format!("cannot write replay: {e}"));
                }
                found.push(json!({
                    "oracle": clean(&v2.oracle), "msg": clean(&v2.msg), "replay": path.to_string_lossy(),
                    "run_index": idx,
                    "release": !cfg!(debug_assertions),
                }));
            }
            if st.violating_runs >= 300 && st.known_hits.is_empty() {
                break; // the tree is clearly broken; no need to burn the budget
            }
        }
        idx += 1;
        if (idx - a.from) % 256 == 0 {
            write_worker_result(&a, &st, &found, (idx - a.from) % 4096 == 0);
        }
    }
    if let Some(mut h) = hashes_file {
        let _ = h.flush();
    }
    write_worker_result(&a, &st, &found, true);
    0
}

fn sanitize(s: &str) -> String {
    s.chars()
        .map(|c| if c.is_ascii_alphanumeric() || c == '_' { c } else { '_' })
        .take(60)
        .collect()
}

/// Strings produced while the code under test was reading garbage may hold invalid UTF-8
/// (they were built with unchecked constructors): make them safe to serialise.
pub fn clean(s: &str) -> String {
    String::from_utf8_lossy(s.as_bytes()).chars().take(6000).collect()
}

fn write_worker_result(a: &WorkerArgs, st: &WorkerStats, found: &[Value], with_sets: bool) {
    if with_sets {
    let mut sig_bytes = Vec::with_capacity(st.sigs.len() * 8);
    for s in &st.sigs {
        sig_bytes.extend_from_slice(&s.to_le_bytes());
    }
    std::fs::write(a.out.join(format!("{}.sigs", a.id)), sig_bytes).ok();
    let mut ev_bytes = Vec::with_capacity(st.evhashes.len() * 8);
    for s in &st.evhashes {
        ev_bytes.extend_from_slice(&s.to_le_bytes());
    }
    std::fs::write(a.out.join(format!("{}.evh", a.id)), ev_bytes).ok();
    }
    let j = json!({
        "evaluations": st.evaluations,
        "nontrivial": st.nontrivial,
        "events": st.events,
        "tape_entries": st.tape_entries,
        "faults": st.faults,
        "probes": st.probes,
        "fault_free_runs": st.fault_free_runs,
        "faulted_runs": st.faulted_runs,
        "samples": st.samples,
        "violating_runs": st.violating_runs,
        "known_hits": st.known_hits,
        "harness_errors": st.harness_errors,
        "found": found,
    });
    std::fs::write(
        a.out.join(format!("{}.json", a.id)),
        serde_json::to_string(&j).unwrap(),
    )
    .ok();
}

// ---------------------------------------------------------------------------------------------
// parent

fn scratch_dir() -> PathBuf {
    let base = std::env::var("VERIF_SCRATCH")
        .map(PathBuf::from)
        .unwrap_or_else(|_| PathBuf::from("/dev/shm"));
    let d = base.join(format!("verif-sim-{}", std::process::id()));
    std::fs::create_dir_all(&d).expect("create scratch dir");
    d
}

fn verif_dir() -> PathBuf {
    std::env::var("VERIF_DIR")
        .map(PathBuf::from)
        .unwrap_or_else(|_| PathBuf::from("/verif"))
}

struct Spawned {
    child: std::process::Child,
    id: String,
    from: u64,
    to: u64,
    release: bool,
}

/// The release-profile twin of this binary (debug assertions and overflow checks off), when
/// bin/check built one: some of the runs are executed by it, so that behaviour that differs
/// between debug and release builds (a side effect inside a debug_assert!, an unchecked
/// constructor that only validates in debug) is explored too.
fn release_twin() -> Option<PathBuf> {
    if !cfg!(debug_assertions) {
        return None;
    }
    let p = PathBuf::from(std::env::var_os("VERIF_RELEASE_BIN")?);
    p.is_file().then_some(p)
}

fn spawn_worker(
    prop: &str,
    seed: u64,
    from: u64,
    to: u64,
    out: &Path,
    id: &str,
    hashes: bool,
) -> std::io::Result<Spawned> {
    spawn_worker_enum(prop, seed, from, to, out, id, hashes, 0)
}

#[allow(clippy::too_many_arguments)]
fn spawn_worker_enum(
    prop: &str,
    seed: u64,
    from: u64,
    to: u64,
    out: &Path,
    id: &str,
    hashes: bool,
    enum_n: u64,
) -> std::io::Result<Spawned> {
    spawn_worker_exe(prop, seed, from, to, out, id, hashes, enum_n, None)
}

#[allow(clippy::too_many_arguments)]
fn spawn_worker_exe(
    prop: &str,
    seed: u64,
    from: u64,
    to: u64,
    out: &Path,
    id: &str,
    hashes: bool,
    enum_n: u64,
    exe: Option<&Path>,
) -> std::io::Result<Spawned> {
    let exe = match exe {
        Some(e) => e.to_path_buf(),
        None => std::env::current_exe()?,
    };
    let mut c = Command::new(exe);
    c.arg("worker")
        .arg(prop)
        .arg("--seed")
        .arg(seed.to_string())
        .arg("--from")
        .arg(from.to_string())
        .arg("--to")
        .arg(to.to_string())
        .arg("--out")
        .arg(out)
        .arg("--id")
        .arg(id);
    if hashes {
        c.arg("--hashes");
    }
    if enum_n > 0 {
        c.arg("--enum").arg(enum_n.to_string());
    }
    // workers report through files; whatever the code under test prints is dropped
    c.stdin(Stdio::null());
    if std::env::var_os("VERIF_WORKER_OUTPUT").is_none() {
        c.stdout(Stdio::null()).stderr(Stdio::null());
    }
    let child = c.spawn()?;
    Ok(Spawned {
        child,
        id: id.to_string(),
        from,
        to,
        release: false,
    })
}

fn read_cur(out: &Path, id: &str) -> Option<(u64, String)> {
    let b = std::fs::read(out.join(format!("{id}.cur"))).ok()?;
    if b.len() < 8 {
        return None;
    }
    let idx = u64::from_le_bytes(b[..8].try_into().unwrap());
    let mut note = String::new();
    if b.len() >= 12 {
        let n = u32::from_le_bytes(b[8..12].try_into().unwrap()) as usize;
        if b.len() >= 12 + n {
            note = String::from_utf8_lossy(&b[12..12 + n]).to_string();
        }
    }
    Some((idx, note))
}

#[derive(Default)]
struct Merged {
    evaluations: u64,
    nontrivial: u64,
    events: u64,
    tape_entries: u64,
    faults: BTreeMap<String, u64>,
    probes: BTreeMap<String, u64>,
    fault_free_runs: u64,
    faulted_runs: u64,
    sigs: BTreeSet<u64>,
    evh: BTreeSet<u64>,
    samples: Vec<Value>,
    violating_runs: u64,
    known_hits: BTreeMap<String, u64>,
    harness_errors: Vec<String>,
    found: Vec<Found>,
}

fn merge_worker(out: &Path, id: &str, m: &mut Merged) -> Result<(), String> {
    let p = out.join(format!("{id}.json"));
    let txt = std::fs::read_to_string(&p).map_err(|e| format!("{}: {e}", p.display()))?;
    let v: Value = serde_json::from_str(&txt).map_err(|e| format!("{}: {e}", p.display()))?;
    let u = |k: &str| v[k].as_u64().unwrap_or(0);
    m.evaluations += u("evaluations");
    m.nontrivial += u("nontrivial");
    m.events += u("events");
    m.tape_entries += u("tape_entries");
    m.fault_free_runs += u("fault_free_runs");
    m.faulted_runs += u("faulted_runs");
    m.violating_runs += u("violating_runs");
    for (field, target) in [("faults", &mut m.faults), ("probes", &mut m.probes), ("known_hits", &mut m.known_hits)] {
        if let Some(o) = v[field].as_object() {
            for (k, n) in o {
                *target.entry(k.clone()).or_insert(0) += n.as_u64().unwrap_or(0);
            }
        }
    }
    if let Some(a) = v["samples"].as_array() {
        for s in a {
            if m.samples.len() < 4 {
                m.samples.push(s.clone());
            }
        }
    }
    if let Some(a) = v["harness_errors"].as_array() {
        for s in a {
            m.harness_errors.push(s.as_str().unwrap_or("").to_string());
        }
    }
    if let Some(a) = v["found"].as_array() {
        for f in a {
            m.found.push(Found {
                oracle: f["oracle"].as_str().unwrap_or("").into(),
                msg: f["msg"].as_str().unwrap_or("").into(),
                replay: PathBuf::from(f["replay"].as_str().unwrap_or("")),
                release: f["release"].as_bool().unwrap_or(false),
            });
        }
    }
    for (ext, set) in [("sigs", &mut m.sigs), ("evh", &mut m.evh)] {
        if let Ok(b) = std::fs::read(out.join(format!("{id}.{ext}"))) {
            for c in b.chunks_exact(8) {
                set.insert(u64::from_le_bytes(c.try_into().unwrap()));
            }
        }
    }
    Ok(())
}

fn confirm_replay(path: &Path, oracle: &str, release: bool) -> Result<bool, String> {
    let exe = match (release, release_twin()) {
        (true, Some(r)) => r,
        _ => std::env::current_exe().map_err(|e| e.to_string())?,
    };
    let out = Command::new(exe)
        .arg("replay")
        .arg(path)
        .stdin(Stdio::null())
        .output()
        .map_err(|e| e.to_string())?;
    let so = String::from_utf8_lossy(&out.stdout);
    let needle = format!("REPRODUCED oracle={oracle}");
    Ok(so.lines().any(|l| l.trim() == needle))
}

fn env_u64(name: &str) -> Option<u64> {
    std::env::var(name).ok().and_then(|v| v.trim().parse().ok())
}

fn cmd_check(scenarios: &[Scenario], prop: &str, tier: &str) -> i32 {
    let Some(sc) = scenarios.iter().find(|s| s.property == prop) else {
        eprintln!("check: property {prop} is not served by this binary");
        return 2;
    };
    if let Err(e) = crate::hashseed::selftest() {
        eprintln!("HARNESS ERROR: {e}");
        return 2;
    }
    let thorough = tier == "thorough";
    let seed = env_u64("VERIF_SEED").unwrap_or(DEFAULT_SEED);
    let seeded_runs = env_u64("VERIF_RUNS").unwrap_or(if thorough {
        sc.thorough_runs
    } else {
        sc.quick_runs
    });
    // thorough tier: the enumerated sub-space comes first (run indexes 0..enum_n)
    let enum_n = match (thorough, sc.enumerated) {
        (true, Some(e)) if std::env::var_os("VERIF_NO_ENUM").is_none() => (e.count)(),
        _ => 0,
    };
    let runs = seeded_runs + enum_n;
    let nproc = std::thread::available_parallelism().map(|n| n.get()).unwrap_or(4) as u64;
    let workers = env_u64("VERIF_WORKERS").unwrap_or(nproc.min(16)).clamp(1, 64).min(runs.max(1));
    let vdir = verif_dir();
    let known = match load_known(&vdir) {
        Ok(k) => k,
        Err(e) => {
            eprintln!("HARNESS ERROR: {e}");
            return 2;
        }
    };
    let out = scratch_dir();
    let t0 = Instant::now();
    println!(
        "check {prop} tier={tier} VERIF_SEED={seed} runs={runs} workers={workers} binary={}",
        bin_name()
    );
    let mut m = Merged::default();
    let mut deaths: Vec<(u64, String, String, bool)> = vec![];
    let mut death_count = 0u64;
    let mut harness_fail: Option<String> = None;

    // (from, to) work items; a worker death splits its item
    // several chunks per worker slot: cheap dynamic balancing (enumerated cases, deep-nesting
    // documents and index-boundary runs have very different costs)
    let n_chunks = if runs >= 200_000 { workers * 6 } else { workers };
    let twin = release_twin();
    // the last quarter of the run indexes is executed by the release-profile twin, if built
    let release_from = if twin.is_some() { runs - seeded_runs / 4 } else { runs };
    let mut pending: Vec<(u64, u64, bool)> = vec![];
    for (lo, hi, rel) in [(0, release_from, false), (release_from, runs, true)] {
        if hi <= lo {
            continue;
        }
        let n = if rel { (n_chunks / 4).max(1) } else { n_chunks };
        let per = (hi - lo).div_ceil(n).max(1);
        let mut a = lo;
        while a < hi {
            pending.push((a, (a + per).min(hi), rel));
            a += per;
        }
    }
    // interleave release chunks with the others so that both kinds run from the start
    pending.sort_by_key(|c| (c.0 % 7, c.0));
    let release_runs = runs - release_from;
    let mut wcount = 0u64;
    let mut running: Vec<Spawned> = vec![];
    while !pending.is_empty() || !running.is_empty() {
        while running.len() < workers as usize && !pending.is_empty() {
            let (a, b, rel) = pending.remove(0);
            let id = format!("w{wcount}");
            wcount += 1;
            let exe = if rel { twin.as_deref() } else { None };
            match spawn_worker_exe(prop, seed, a, b, &out, &id, false, enum_n, exe) {
                Ok(mut s) => {
                    s.release = rel;
                    running.push(s)
                }
                Err(e) => {
                    harness_fail = Some(format!("cannot spawn worker: {e}"));
                    pending.clear();
                    break;
                }
            }
        }
        if running.is_empty() {
            break;
        }
        // wait for any to finish
        let mut i = 0;
        let mut progressed = false;
        while i < running.len() {
            match running[i].child.try_wait() {
                Ok(Some(status)) => {
                    progressed = true;
                    let s = running.remove(i);
                    let code = status.code();
                    if code == Some(0) {
                        if let Err(e) = merge_worker(&out, &s.id, &mut m) {
                            harness_fail = Some(e);
                        }
                    } else if code == Some(2) {
                        harness_fail = Some(format!("worker {} reported a harness error", s.id));
                    } else {
                        // died (signal), or hang (3)
                        let (at, note) = read_cur(&out, &s.id).unwrap_or((s.from, String::new()));
                        let why = if code == Some(3) {
                            "hang".to_string()
                        } else {
                            format!("worker died ({status})")
                        };
                        // last checkpoint (or the final result of a hang exit)
                        let _ = merge_worker(&out, &s.id, &mut m);
                        death_count += 1;
                        if deaths.len() < 8 && !deaths.iter().any(|d| d.2 == note && d.1 == why) {
                            deaths.push((at, why, note, s.release));
                        }
                        if at + 1 < s.to && death_count < 5000 {
                            pending.push((at + 1, s.to, s.release));
                        }
                    }
                }
                Ok(None) => i += 1,
                Err(e) => {
                    harness_fail = Some(format!("wait: {e}"));
                    running.remove(i);
                }
            }
        }
        if !progressed {
            std::thread::sleep(Duration::from_millis(20));
        }
    }

    // confirm deaths by re-running the culprit alone in a fresh worker
    let mut violations: Vec<Found> = vec![];
    for (at, why, note, rel) in &deaths {
        let id = format!("confirm{at}");
        let exe = if *rel { twin.as_deref() } else { None };
        let confirmed = match spawn_worker_exe(prop, seed, *at, at + 1, &out, &id, false, enum_n, exe) {
            Ok(mut s) => match s.child.wait() {
                Ok(st) => st.code() != Some(0) && st.code() != Some(2),
                Err(_) => false,
            },
            Err(_) => false,
        };
        if confirmed {
            let oracle = if why == "hang" { "hang" } else { "process_death" };
            let v = Violation::new(
                oracle,
                format!(
                    "{why} while executing run {at} [{note}]{} (confirmed alone in a fresh process)",
                    if *rel { " [release-profile binary]" } else { "" }
                ),
            );
            let path = vdir
                .join("replays")
                .join(format!("{}-{}-{}-{}.json", sc.property, oracle, seed, at));
            let _ = write_replay(
                &path,
                sc,
                &bin_name(),
                seed,
                *at,
                &v,
                None,
                &[],
                "not minimised: the process dies, the run is identified by (seed, run_index)",
            );
            if *rel {
                if let Ok(txt) = std::fs::read_to_string(&path) {
                    if let Ok(mut j) = serde_json::from_str::<Value>(&txt) {
                        j["profile"] = json!("release (debug assertions off)");
                        let _ = std::fs::write(&path, serde_json::to_string_pretty(&j).unwrap());
                    }
                }
            }
            if sc.death_is_violation {
                violations.push(Found {
                    oracle: oracle.into(),
                    msg: v.msg,
                    replay: path,
                    release: false,
                });
            } else {
                harness_fail = Some(format!(
                    "{why} at run {at} (property {prop} says nothing about it: harness error); replay={}",
                    path.display()
                ));
            }
        } else {
            harness_fail = Some(format!(
                "{why} at run {at} did not reproduce in a fresh process (nondeterministic harness?)"
            ));
        }
    }

    // confirm each found violation in a fresh process
    let mut seen = BTreeSet::new();
    for f in std::mem::take(&mut m.found) {
        if !seen.insert(f.oracle.clone()) {
            // another worker already reported this oracle: drop the duplicate replay file
            let _ = std::fs::remove_file(&f.replay);
            continue;
        }
        match confirm_replay(&f.replay, &f.oracle, f.release) {
            Ok(true) => violations.push(f),
            Ok(false) => {
                harness_fail = Some(format!(
                    "replay {} did not reproduce oracle {} in a fresh process",
                    f.replay.display(),
                    f.oracle
                ));
            }
            Err(e) => harness_fail = Some(format!("cannot run replay: {e}")),
        }
    }

    // thorough extra step
    if thorough && harness_fail.is_none() {
        if let Some(extra) = sc.thorough_extra {
            match extra(&CheckEnv {
                seed,
                thorough,
                verif_dir: vdir.clone(),
            }) {
                Ok(fs) => violations.extend(fs),
                Err(e) => harness_fail = Some(e),
            }
        }
    }

    if !m.harness_errors.is_empty() && harness_fail.is_none() {
        harness_fail = Some(m.harness_errors[0].clone());
    }

    // known findings (worker-side hits + parent-side matches of extra violations)
    let mut known_lines: Vec<String> = m
        .known_hits
        .iter()
        .map(|(what, n)| format!("KNOWN-FINDING: property={prop} {what} ({n} runs)"))
        .collect();
    violations.retain(|f| {
        if let Some(k) = known_match(&known, prop, &f.oracle, &f.msg) {
            // one line per listed finding, however many runs hit it
            let line = format!("KNOWN-FINDING: property={prop} {}", k.what);
            if !known_lines.iter().any(|l| l.starts_with(&line)) {
                known_lines.push(line);
            }
            false
        } else {
            true
        }
    });

    let wall = t0.elapsed().as_secs_f64();
    let _ = std::fs::remove_dir_all(&out);

    // evidence
    let distinct = m.sigs.len() as u64;
    let ev = json!({
        "property_id": prop,
        "tier": if thorough { "thorough" } else { "quick" },
        "seed": seed,
        "level": sc.level,
        "coverage": {
            "evaluations": m.evaluations,
            "distinct_nontrivial": distinct,
            "rule": sc.rule,
            "samples": m.samples,
            "nontrivial_runs": m.nontrivial,
            "distinct_event_log_hashes": m.evh.len(),
            "sim_events": m.events,
            "tape_choices_drawn": m.tape_entries,
            "runs_fault_free": m.fault_free_runs,
            "runs_with_fault_fired": m.faulted_runs,
            "faults_fired": m.faults,
            "probes": m.probes,
            "runs_per_hour": if wall > 0.0 { (m.evaluations as f64 / wall * 3600.0) as u64 } else { 0 },
            "seeds": {"base": seed, "first_run_index": 0, "last_run_index": runs.saturating_sub(1), "derivation": "mix(VERIF_SEED, scenario tag, run index)"},
            "simulated_time": "n/a: no clocks or timers in the anchored code; progress is measured in seam events (sim_events)",
            "real_components": sc.real_components,
            "stub_components": sc.stub_components,
            "workers": workers,
            "runs_executed_by_release_profile_binary": release_runs,
            "enumerated_cases": enum_n,
            "enumerated_space": sc.enumerated.map_or("", |e| e.what),
            "known_findings_hit": m.known_hits,
            "exhaustive": false,
        },
        "assumptions": sc.assumptions,
        "wall_s": wall,
        "violations": violations.len(),
    });
    let evdir = vdir.join("evidence");
    let _ = std::fs::create_dir_all(&evdir);
    let evpath = evdir.join(format!("{prop}.json"));
    if harness_fail.is_none() {
        if let Err(e) = std::fs::write(&evpath, serde_json::to_string_pretty(&ev).unwrap()) {
            harness_fail = Some(format!("cannot write evidence: {e}"));
        }
    }

    println!(
        "runs={} nontrivial={} distinct_signatures={} distinct_event_logs={} events={} wall={:.1}s",
        m.evaluations,
        m.nontrivial,
        distinct,
        m.evh.len(),
        m.events,
        wall
    );
    if death_count > 0 {
        println!("worker processes that died or hung: {death_count}");
    }
    println!("faults fired: {:?}", m.faults);
    println!("probes: {:?}", m.probes);
    for l in &known_lines {
        println!("{l}");
    }
    if let Some(h) = harness_fail {
        println!("HARNESS ERROR: {h}");
        for f in &violations {
            println!("(unreported because of harness error) [{}] {} replay={}", f.oracle, f.msg, f.replay.display());
        }
        return 2;
    }
    if violations.is_empty() {
        println!("OK property={prop} held on everything explored");
        0
    } else {
        for f in &violations {
            println!("violation [{}]: {}", f.oracle, f.msg);
            println!("VIOLATION property={prop} replay={}", f.replay.display());
        }
        1
    }
}

/// Determinism audit: N runs executed twice in different processes (1 worker vs many) must
/// produce identical per-run event-log hashes, tape lengths and verdicts.
fn cmd_audit(scenarios: &[Scenario], prop: &str, runs: u64) -> i32 {
    let Some(_sc) = scenarios.iter().find(|s| s.property == prop) else {
        eprintln!("audit: property {prop} is not served by this binary");
        return 2;
    };
    if let Err(e) = crate::hashseed::selftest() {
        eprintln!("HARNESS ERROR: {e}");
        return 2;
    }
    let seed = env_u64("VERIF_SEED").unwrap_or(DEFAULT_SEED);
    let out = scratch_dir();
    let mut logs: Vec<BTreeMap<u64, String>> = vec![];
    for (round, workers) in [(0u64, 1u64), (1, 7), (2, 16)] {
        let per = runs.div_ceil(workers);
        let mut kids = vec![];
        for w in 0..workers {
            let (a, b) = (w * per, ((w + 1) * per).min(runs));
            if a >= b {
                continue;
            }
            let id = format!("a{round}_{w}");
            match spawn_worker(prop, seed, a, b, &out, &id, true) {
                Ok(s) => kids.push(s),
                Err(e) => {
                    eprintln!("HARNESS ERROR: {e}");
                    return 2;
                }
            }
        }
        let mut log = BTreeMap::new();
        let mut queue: Vec<Spawned> = kids;
        let mut resumed = 0u64;
        while let Some(mut k) = queue.pop() {
            let st = k.child.wait();
            if let Ok(txt) = std::fs::read_to_string(out.join(format!("{}.hashes", k.id))) {
                for l in txt.lines() {
                    if let Some((i, rest)) = l.split_once(' ') {
                        log.insert(i.parse::<u64>().unwrap_or(u64::MAX), rest.to_string());
                    }
                }
            }
            if !matches!(st.as_ref().map(|s| s.code()), Ok(Some(0))) {
                // the worker died (a run that kills the process is a result, and a deterministic
                // one): note it and resume after it
                let at = read_cur(&out, &k.id).map_or(k.from, |x| x.0);
                log.insert(at, "process died".to_string());
                if at + 1 < k.to && resumed < 2000 {
                    resumed += 1;
                    let id = format!("a{round}_r{resumed}");
                    match spawn_worker(prop, seed, at + 1, k.to, &out, &id, true) {
                        Ok(s) => queue.push(s),
                        Err(e) => {
                            eprintln!("HARNESS ERROR: {e}");
                            return 2;
                        }
                    }
                }
            }
        }
        logs.push(log);
    }
    let _ = std::fs::remove_dir_all(&out);
    let mut bad = 0;
    for i in 0..runs {
        let a = logs[0].get(&i);
        if a.is_none() || logs[1].get(&i) != a || logs[2].get(&i) != a {
            if bad < 10 {
                println!(
                    "DIVERGENCE run {i}: {:?} / {:?} / {:?}",
                    a,
                    logs[1].get(&i),
                    logs[2].get(&i)
                );
            }
            bad += 1;
        }
    }
    if bad > 0 {
        println!("HARNESS ERROR: determinism audit failed for {prop}: {bad} of {runs} runs diverged");
        2
    } else {
        println!("determinism audit OK: {prop}: {runs} runs x 3 process layouts (1/7/16 workers) identical");
        0
    }
}

pub fn main_with(scenarios: &[Scenario]) -> ! {
    install_panic_hook();
    let args: Vec<String> = std::env::args().collect();
    let code = match args.get(1).map(String::as_str) {
        Some("check") if args.len() >= 4 => cmd_check(scenarios, &args[2], &args[3]),
        Some("replay") if args.len() >= 3 => cmd_replay(scenarios, &args[2]),
        Some("audit") if args.len() >= 3 => cmd_audit(
            scenarios,
            &args[2],
            args.get(3).and_then(|s| s.parse().ok()).unwrap_or(500),
        ),
        Some("list") => {
            for s in scenarios {
                println!("{}", s.property);
            }
            0
        }
        Some("worker") if args.len() >= 3 => {
            let get = |name: &str| -> Option<String> {
                args.iter()
                    .position(|a| a == name)
                    .and_then(|i| args.get(i + 1).cloned())
            };
            let a = WorkerArgs {
                prop: args[2].clone(),
                seed: get("--seed").and_then(|s| s.parse().ok()).unwrap_or(DEFAULT_SEED),
                from: get("--from").and_then(|s| s.parse().ok()).unwrap_or(0),
                to: get("--to").and_then(|s| s.parse().ok()).unwrap_or(0),
                out: PathBuf::from(get("--out").unwrap_or_else(|| "/dev/shm".into())),
                id: get("--id").unwrap_or_else(|| "w".into()),
                hashes: args.iter().any(|a| a == "--hashes"),
                verif_dir: verif_dir(),
                enum_n: get("--enum").and_then(|s| s.parse().ok()).unwrap_or(0),
            };
            cmd_worker(scenarios, a)
        }
        _ => {
            eprintln!(
                "usage: {} check <PROP> quick|thorough | replay <file> | audit <PROP> [runs] | list",
                args.first().map(String::as_str).unwrap_or("sim")
            );
            2
        }
    };
    remove_process_scratch_if_owned(&args);
    std::process::exit(code)
}

fn remove_process_scratch_if_owned(args: &[String]) {
    // workers' scratch lives under the parent's directory, which the parent removes
    if args.get(1).map(String::as_str) != Some("worker") {
        remove_process_scratch();
    }
}

/// Run `f` on a fresh 2 MiB-stack thread whose hash seed is `seed` (so that every
/// `HashMap::new()` inside behaves as a function of the tape). A panic inside is re-raised on
/// the calling thread with its location preserved for classification.
pub fn on_fresh_thread<R: Send>(seed: u64, f: impl FnOnce() -> R + Send) -> R {
    let res = std::thread::scope(|s| {
        std::thread::Builder::new()
            .stack_size(STACK)
            .name("simsub".into())
            .spawn_scoped(s, move || {
                crate::hashseed::set_thread_hash_seed(seed);
                PANIC_INFO.with(|p| *p.borrow_mut() = None);
                match std::panic::catch_unwind(std::panic::AssertUnwindSafe(f)) {
                    Ok(r) => Ok(r),
                    Err(payload) => Err((payload, PANIC_INFO.with(|p| p.borrow_mut().take()))),
                }
            })
            .expect("spawn sub thread")
            .join()
    });
    match res {
        Ok(Ok(r)) => r,
        Ok(Err((payload, info))) => {
            PANIC_INFO.with(|p| *p.borrow_mut() = info);
            // resume_unwind does not call the hook, so the info set above is what gets reported
            std::panic::resume_unwind(payload)
        }
        Err(payload) => std::panic::resume_unwind(payload),
    }
}
