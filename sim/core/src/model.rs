//! Independent term / quad model. It never calls `Term::eq/cmp/hash`, `SimpleTerm` equality or
//! any matcher of the code under test: into sophia it goes through public constructors only,
//! out of sophia through accessor methods only.

use sophia_api::term::{
    BnodeId, IriRef, LanguageTag, SimpleTerm, Term, TermKind, VarName,
};
use std::collections::{BTreeMap, BTreeSet};
use std::fmt;

#[derive(Clone, Debug, PartialEq, Eq, PartialOrd, Ord, Hash)]
pub enum MTerm {
    Iri(String),
    Bnode(String),
    /// lexical form, datatype IRI
    Lit(String, String),
    /// lexical form, language tag (lower-cased: tags compare case-insensitively)
    Lang(String, String),
    Triple(Box<[MTerm; 3]>),
    Var(String),
}

pub type MTriple = [MTerm; 3];
pub type MQuad = ([MTerm; 3], Option<MTerm>);

pub const XSD_STRING: &str = "http://www.w3.org/2001/XMLSchema#string";
pub const RDF: &str = "http://www.w3.org/1999/02/22-rdf-syntax-ns#";

impl MTerm {
    pub fn iri(s: &str) -> Self {
        MTerm::Iri(s.to_string())
    }
    pub fn bn(s: &str) -> Self {
        MTerm::Bnode(s.to_string())
    }
    pub fn lit(lex: &str, dt: &str) -> Self {
        MTerm::Lit(lex.to_string(), dt.to_string())
    }
    pub fn lang(lex: &str, tag: &str) -> Self {
        MTerm::Lang(lex.to_string(), tag.to_ascii_lowercase())
    }
    pub fn triple(s: MTerm, p: MTerm, o: MTerm) -> Self {
        MTerm::Triple(Box::new([s, p, o]))
    }

    pub fn kind(&self) -> TermKind {
        match self {
            MTerm::Iri(_) => TermKind::Iri,
            MTerm::Bnode(_) => TermKind::BlankNode,
            MTerm::Lit(..) | MTerm::Lang(..) => TermKind::Literal,
            MTerm::Triple(_) => TermKind::Triple,
            MTerm::Var(_) => TermKind::Variable,
        }
    }

    /// Read a term of the code under test through its accessors only.
    pub fn from_term<T: Term>(t: T) -> Self {
        match t.kind() {
            TermKind::Iri => MTerm::Iri(t.iri().expect("kind()=Iri but iri()=None").to_string()),
            TermKind::BlankNode => MTerm::Bnode(
                t.bnode_id()
                    .expect("kind()=BlankNode but bnode_id()=None")
                    .to_string(),
            ),
            TermKind::Literal => {
                let lex = t
                    .lexical_form()
                    .expect("kind()=Literal but lexical_form()=None")
                    .to_string();
                if let Some(tag) = t.language_tag() {
                    MTerm::Lang(lex, tag.as_str().to_ascii_lowercase())
                } else {
                    MTerm::Lit(
                        lex,
                        t.datatype()
                            .expect("kind()=Literal but datatype()=None")
                            .to_string(),
                    )
                }
            }
            TermKind::Triple => {
                let [s, p, o] = t.triple().expect("kind()=Triple but triple()=None");
                MTerm::Triple(Box::new([
                    MTerm::from_term(s),
                    MTerm::from_term(p),
                    MTerm::from_term(o),
                ]))
            }
            TermKind::Variable => MTerm::Var(
                t.variable()
                    .expect("kind()=Variable but variable()=None")
                    .to_string(),
            ),
        }
    }

    /// Build an owned sophia term through the validating public constructors.
    /// `raw_tag` lets the caller keep the original spelling of a language tag.
    pub fn to_simple(&self) -> SimpleTerm<'static> {
        match self {
            MTerm::Iri(i) => SimpleTerm::Iri(
                IriRef::new(i.clone().into()).unwrap_or_else(|e| panic!("ORACLE: the validating constructor rejects the well-formed IRI {i:?} of the workload pool: {e}")),
            ),
            MTerm::Bnode(b) => SimpleTerm::BlankNode(
                BnodeId::new(b.clone().into()).unwrap_or_else(|e| panic!("ORACLE: the validating constructor rejects the well-formed blank node label {b:?} of the workload pool: {e}")),
            ),
            MTerm::Lit(lex, dt) => SimpleTerm::LiteralDatatype(
                lex.clone().into(),
                IriRef::new(dt.clone().into()).unwrap_or_else(|e| panic!("ORACLE: the validating constructor rejects the well-formed datatype IRI {dt:?} of the workload pool: {e}")),
            ),
            MTerm::Lang(lex, tag) => SimpleTerm::LiteralLanguage(
                lex.clone().into(),
                LanguageTag::new(tag.clone().into())
                    .unwrap_or_else(|e| panic!("ORACLE: the validating constructor rejects the well-formed language tag {tag:?} of the workload pool: {e}")),
            ),
            MTerm::Triple(t) => SimpleTerm::Triple(Box::new([
                t[0].to_simple(),
                t[1].to_simple(),
                t[2].to_simple(),
            ])),
            MTerm::Var(v) => SimpleTerm::Variable(
                VarName::new(v.clone().into()).unwrap_or_else(|e| panic!("ORACLE: the validating constructor rejects the well-formed variable name {v:?} of the workload pool: {e}")),
            ),
        }
    }

    pub fn is_bnode(&self) -> bool {
        matches!(self, MTerm::Bnode(_))
    }

    /// blank node labels occurring anywhere in the term (incl. nested quoted triples)
    pub fn collect_bnodes(&self, out: &mut BTreeSet<String>) {
        match self {
            MTerm::Bnode(b) => {
                out.insert(b.clone());
            }
            MTerm::Triple(t) => {
                for x in t.iter() {
                    x.collect_bnodes(out);
                }
            }
            _ => {}
        }
    }

    pub fn has_bnode(&self) -> bool {
        match self {
            MTerm::Bnode(_) => true,
            MTerm::Triple(t) => t.iter().any(MTerm::has_bnode),
            _ => false,
        }
    }

    pub fn map_bnodes(&self, f: &dyn Fn(&str) -> String) -> MTerm {
        match self {
            MTerm::Bnode(b) => MTerm::Bnode(f(b)),
            MTerm::Triple(t) => MTerm::Triple(Box::new([
                t[0].map_bnodes(f),
                t[1].map_bnodes(f),
                t[2].map_bnodes(f),
            ])),
            other => other.clone(),
        }
    }

    pub fn depth(&self) -> usize {
        match self {
            MTerm::Triple(t) => 1 + t.iter().map(MTerm::depth).max().unwrap_or(0),
            _ => 0,
        }
    }

    /// strict RDF 1.1 term in the given position? (0=s,1=p,2=o,3=g); IRIs must be absolute
    pub fn any_nested(&self, f: &dyn Fn(&MTerm) -> bool) -> bool {
        if f(self) {
            return true;
        }
        if let MTerm::Triple(t) = self {
            return t.iter().any(|x| x.any_nested(f));
        }
        false
    }
}

impl fmt::Display for MTerm {
    fn fmt(&self, f: &mut fmt::Formatter<'_>) -> fmt::Result {
        match self {
            MTerm::Iri(i) => write!(f, "<{i}>"),
            MTerm::Bnode(b) => write!(f, "_:{b}"),
            MTerm::Lit(l, d) => write!(f, "{l:?}^^<{d}>"),
            MTerm::Lang(l, t) => write!(f, "{l:?}@{t}"),
            MTerm::Triple(t) => write!(f, "<< {} {} {} >>", t[0], t[1], t[2]),
            MTerm::Var(v) => write!(f, "?{v}"),
        }
    }
}

pub fn fmt_quad(q: &MQuad) -> String {
    match &q.1 {
        None => format!("{} {} {} .", q.0[0], q.0[1], q.0[2]),
        Some(g) => format!("{} {} {} {} .", q.0[0], q.0[1], q.0[2], g),
    }
}

pub fn fmt_quads<'a>(qs: impl IntoIterator<Item = &'a MQuad>) -> String {
    let mut s = String::new();
    for q in qs {
        s.push_str(&fmt_quad(q));
        s.push('\n');
    }
    s
}

pub fn quad_to_simple(q: &MQuad) -> ([SimpleTerm<'static>; 3], Option<SimpleTerm<'static>>) {
    (
        [q.0[0].to_simple(), q.0[1].to_simple(), q.0[2].to_simple()],
        q.1.as_ref().map(MTerm::to_simple),
    )
}

pub fn triple_to_simple(t: &MTriple) -> [SimpleTerm<'static>; 3] {
    [t[0].to_simple(), t[1].to_simple(), t[2].to_simple()]
}

pub fn quad_from<Q: sophia_api::quad::Quad>(q: Q) -> MQuad {
    let ([s, p, o], g) = q.to_spog();
    (
        [MTerm::from_term(s), MTerm::from_term(p), MTerm::from_term(o)],
        g.map(MTerm::from_term),
    )
}

pub fn triple_from<T: sophia_api::triple::Triple>(t: T) -> MTriple {
    let [s, p, o] = t.to_spo();
    [MTerm::from_term(s), MTerm::from_term(p), MTerm::from_term(o)]
}

pub fn quad_bnodes(q: &MQuad, out: &mut BTreeSet<String>) {
    for t in &q.0 {
        t.collect_bnodes(out);
    }
    if let Some(g) = &q.1 {
        g.collect_bnodes(out);
    }
}

pub fn map_quad_bnodes(q: &MQuad, f: &dyn Fn(&str) -> String) -> MQuad {
    (
        [
            q.0[0].map_bnodes(f),
            q.0[1].map_bnodes(f),
            q.0[2].map_bnodes(f),
        ],
        q.1.as_ref().map(|g| g.map_bnodes(f)),
    )
}

fn quad_has_bnode(q: &MQuad) -> bool {
    q.0.iter().any(MTerm::has_bnode) || q.1.as_ref().is_some_and(MTerm::has_bnode)
}

// ---------------------------------------------------------------------------------------------
// Independent isomorphism: exact backtracking search for a blank node bijection.

/// Result of the isomorphism search.
#[derive(Debug, Clone, PartialEq, Eq)]
pub enum Iso {
    Yes,
    No(String),
}

impl Iso {
    pub fn is_yes(&self) -> bool {
        matches!(self, Iso::Yes)
    }
}

/// Are the two quad *sets* isomorphic (equal up to a bijection of blank node labels)?
/// Exact; exponential only in pathological symmetric cases, and callers bound blank nodes.
pub fn isomorphic(a: &BTreeSet<MQuad>, b: &BTreeSet<MQuad>) -> Iso {
    if a.len() != b.len() {
        return Iso::No(format!("sizes differ: {} vs {}", a.len(), b.len()));
    }
    let (ga, ba): (Vec<&MQuad>, Vec<&MQuad>) = a.iter().partition(|q| !quad_has_bnode(q));
    let (gb, bb): (Vec<&MQuad>, Vec<&MQuad>) = b.iter().partition(|q| !quad_has_bnode(q));
    if ga != gb {
        let only_a: Vec<_> = ga.iter().filter(|q| !gb.contains(q)).take(3).collect();
        let only_b: Vec<_> = gb.iter().filter(|q| !ga.contains(q)).take(3).collect();
        return Iso::No(format!(
            "ground quads differ: only in first {:?}; only in second {:?}",
            only_a.iter().map(|q| fmt_quad(q)).collect::<Vec<_>>(),
            only_b.iter().map(|q| fmt_quad(q)).collect::<Vec<_>>()
        ));
    }
    if ba.len() != bb.len() {
        return Iso::No("numbers of non-ground quads differ".into());
    }
    let mut na = BTreeSet::new();
    let mut nb = BTreeSet::new();
    for q in &ba {
        quad_bnodes(q, &mut na);
    }
    for q in &bb {
        quad_bnodes(q, &mut nb);
    }
    if na.len() != nb.len() {
        return Iso::No(format!(
            "blank node counts differ: {} vs {}",
            na.len(),
            nb.len()
        ));
    }
    let sig_a = signatures(&ba);
    let sig_b = signatures(&bb);
    {
        let mut sa: Vec<_> = sig_a.values().collect();
        let mut sb: Vec<_> = sig_b.values().collect();
        sa.sort();
        sb.sort();
        if sa != sb {
            return Iso::No("blank node signatures differ".into());
        }
    }
    // order a's bnodes: rarest signature first
    let mut order: Vec<&String> = na.iter().collect();
    let mut freq: BTreeMap<&Vec<String>, usize> = BTreeMap::new();
    for s in sig_a.values() {
        *freq.entry(s).or_insert(0) += 1;
    }
    order.sort_by_key(|n| freq[&sig_a[*n]]);
    let bset: BTreeSet<&MQuad> = bb.iter().copied().collect();
    let mut assign: BTreeMap<String, String> = BTreeMap::new();
    let mut used: BTreeSet<String> = BTreeSet::new();
    let mut budget: u64 = 2_000_000;
    if search(
        0, &order, &sig_a, &sig_b, &nb, &ba, &bset, &mut assign, &mut used, &mut budget,
    ) {
        Iso::Yes
    } else if budget == 0 {
        Iso::No("search budget exhausted".into())
    } else {
        Iso::No("no blank node bijection maps one onto the other".into())
    }
}

fn blanked(t: &MTerm, me: &str) -> String {
    match t {
        MTerm::Bnode(b) if b == me => "_:ME".into(),
        MTerm::Bnode(_) => "_:".into(),
        MTerm::Triple(tr) => format!(
            "<<{} {} {}>>",
            blanked(&tr[0], me),
            blanked(&tr[1], me),
            blanked(&tr[2], me)
        ),
        other => other.to_string(),
    }
}

fn signatures(qs: &[&MQuad]) -> BTreeMap<String, Vec<String>> {
    let mut out: BTreeMap<String, Vec<String>> = BTreeMap::new();
    for q in qs {
        let mut ns = BTreeSet::new();
        quad_bnodes(q, &mut ns);
        for n in ns {
            let s = format!(
                "{} {} {} {}",
                blanked(&q.0[0], &n),
                blanked(&q.0[1], &n),
                blanked(&q.0[2], &n),
                q.1.as_ref().map(|g| blanked(g, &n)).unwrap_or_default()
            );
            out.entry(n).or_default().push(s);
        }
    }
    for v in out.values_mut() {
        v.sort();
    }
    out
}

#[allow(clippy::too_many_arguments)]
fn search(
    k: usize,
    order: &[&String],
    sig_a: &BTreeMap<String, Vec<String>>,
    sig_b: &BTreeMap<String, Vec<String>>,
    nb: &BTreeSet<String>,
    qa: &[&MQuad],
    bset: &BTreeSet<&MQuad>,
    assign: &mut BTreeMap<String, String>,
    used: &mut BTreeSet<String>,
    budget: &mut u64,
) -> bool {
    if *budget == 0 {
        return false;
    }
    *budget -= 1;
    if k == order.len() {
        return true;
    }
    let a = order[k];
    for cand in nb {
        if used.contains(cand) || sig_a[a] != sig_b[cand] {
            continue;
        }
        assign.insert(a.clone(), cand.clone());
        used.insert(cand.clone());
        // every quad of `a` whose blank nodes are all assigned must exist in b
        let mut ok = true;
        for q in qa {
            let mut ns = BTreeSet::new();
            quad_bnodes(q, &mut ns);
            if !ns.contains(a) || !ns.iter().all(|n| assign.contains_key(n)) {
                continue;
            }
            let mapped = map_quad_bnodes(q, &|n| assign[n].clone());
            if !bset.contains(&mapped) {
                ok = false;
                break;
            }
        }
        if ok && search(k + 1, order, sig_a, sig_b, nb, qa, bset, assign, used, budget) {
            return true;
        }
        assign.remove(a);
        used.remove(cand);
    }
    false
}

#[cfg(test)]
mod test {
    use super::*;

    fn q(s: MTerm, p: &str, o: MTerm) -> MQuad {
        ([s, MTerm::iri(p), o], None)
    }

    #[test]
    fn iso_cycle() {
        let a: BTreeSet<MQuad> = [
            q(MTerm::bn("a"), "x:p", MTerm::bn("b")),
            q(MTerm::bn("b"), "x:p", MTerm::bn("c")),
            q(MTerm::bn("c"), "x:p", MTerm::bn("a")),
        ]
        .into_iter()
        .collect();
        let b: BTreeSet<MQuad> = [
            q(MTerm::bn("z"), "x:p", MTerm::bn("x")),
            q(MTerm::bn("x"), "x:p", MTerm::bn("y")),
            q(MTerm::bn("y"), "x:p", MTerm::bn("z")),
        ]
        .into_iter()
        .collect();
        assert!(isomorphic(&a, &b).is_yes());
        let c: BTreeSet<MQuad> = [
            q(MTerm::bn("z"), "x:p", MTerm::bn("x")),
            q(MTerm::bn("x"), "x:p", MTerm::bn("y")),
            q(MTerm::bn("y"), "x:p", MTerm::bn("x")),
        ]
        .into_iter()
        .collect();
        assert!(!isomorphic(&a, &c).is_yes());
    }
}
