//! Independent line-oriented reader of the W3C N-Quads grammar (with RDF-star quoted triples),
//! written from the grammar, sharing no code with Rio or sophia. Used as the "independent
//! reader" of property C03. It is position-agnostic (any term kind in any position) so that
//! generalized data can be read back too; `?var` is accepted as a variable.

use crate::model::*;

#[derive(Debug, Clone, PartialEq, Eq)]
pub struct NqError {
    pub line: usize,
    pub col: usize,
    pub msg: String,
}

struct P<'a> {
    s: &'a [u8],
    i: usize,
    line: usize,
}

fn pn_chars_base(c: char) -> bool {
    matches!(c,
        'A'..='Z' | 'a'..='z' | '\u{C0}'..='\u{D6}' | '\u{D8}'..='\u{F6}' | '\u{F8}'..='\u{2FF}'
        | '\u{370}'..='\u{37D}' | '\u{37F}'..='\u{1FFF}' | '\u{200C}'..='\u{200D}'
        | '\u{2070}'..='\u{218F}' | '\u{2C00}'..='\u{2FEF}' | '\u{3001}'..='\u{D7FF}'
        | '\u{F900}'..='\u{FDCF}' | '\u{FDF0}'..='\u{FFFD}' | '\u{10000}'..='\u{EFFFF}')
}
fn pn_chars_u(c: char) -> bool {
    pn_chars_base(c) || c == '_' || c == ':'
}
fn pn_chars(c: char) -> bool {
    pn_chars_u(c)
        || matches!(c, '-' | '0'..='9' | '\u{B7}' | '\u{300}'..='\u{36F}' | '\u{203F}'..='\u{2040}')
}

impl<'a> P<'a> {
    fn err<T>(&self, msg: &str) -> Result<T, NqError> {
        Err(NqError {
            line: self.line,
            col: self.i,
            msg: msg.to_string(),
        })
    }
    fn peek(&self) -> Option<u8> {
        self.s.get(self.i).copied()
    }
    fn ws(&mut self) {
        while matches!(self.peek(), Some(b' ' | b'\t')) {
            self.i += 1;
        }
    }
    fn next_char(&mut self) -> Result<char, NqError> {
        let rest = &self.s[self.i..];
        let len = match rest.first() {
            None => return self.err("unexpected end of line"),
            Some(b) if *b < 0x80 => 1,
            Some(b) if *b >= 0xF0 => 4,
            Some(b) if *b >= 0xE0 => 3,
            Some(b) if *b >= 0xC0 => 2,
            _ => return self.err("invalid UTF-8"),
        };
        if rest.len() < len {
            return self.err("truncated UTF-8");
        }
        match std::str::from_utf8(&rest[..len]) {
            Ok(s) => {
                self.i += len;
                Ok(s.chars().next().unwrap())
            }
            Err(_) => self.err("invalid UTF-8"),
        }
    }
    fn uchar(&mut self, n: usize) -> Result<char, NqError> {
        if self.i + n > self.s.len() {
            return self.err("truncated \\u escape");
        }
        let hex = &self.s[self.i..self.i + n];
        if !hex.iter().all(u8::is_ascii_hexdigit) {
            return self.err("bad hex in escape");
        }
        self.i += n;
        let v = u32::from_str_radix(std::str::from_utf8(hex).unwrap(), 16).unwrap();
        match char::from_u32(v) {
            Some(c) => Ok(c),
            None => self.err("escape is not a scalar value"),
        }
    }
    fn iriref(&mut self) -> Result<String, NqError> {
        // at '<'
        self.i += 1;
        let mut out = String::new();
        loop {
            let c = self.next_char()?;
            match c {
                '>' => return Ok(out),
                '\\' => match self.next_char()? {
                    'u' => out.push(self.uchar(4)?),
                    'U' => out.push(self.uchar(8)?),
                    _ => return self.err("bad escape in IRIREF"),
                },
                '\u{0}'..='\u{20}' | '<' | '"' | '{' | '}' | '|' | '^' | '`' => {
                    return self.err("illegal character in IRIREF");
                }
                c => out.push(c),
            }
        }
    }
    fn bnode(&mut self) -> Result<String, NqError> {
        // at "_:"
        self.i += 2;
        let mut out = String::new();
        let c = self.next_char()?;
        if !(pn_chars_u(c) && c != ':' || c.is_ascii_digit()) {
            return self.err("bad first character of blank node label");
        }
        out.push(c);
        loop {
            let save = self.i;
            let Ok(c) = self.next_char() else {
                self.i = save;
                break;
            };
            if (pn_chars(c) && c != ':') || c == '.' {
                out.push(c);
            } else {
                self.i = save;
                break;
            }
        }
        // label cannot end with '.'
        while out.ends_with('.') {
            out.pop();
            self.i -= 1;
        }
        Ok(out)
    }
    fn literal(&mut self) -> Result<MTerm, NqError> {
        // at '"'
        self.i += 1;
        let mut lex = String::new();
        loop {
            let c = self.next_char()?;
            match c {
                '"' => break,
                '\\' => match self.next_char()? {
                    't' => lex.push('\t'),
                    'b' => lex.push('\u{8}'),
                    'n' => lex.push('\n'),
                    'r' => lex.push('\r'),
                    'f' => lex.push('\u{c}'),
                    '"' => lex.push('"'),
                    '\'' => lex.push('\''),
                    '\\' => lex.push('\\'),
                    'u' => lex.push(self.uchar(4)?),
                    'U' => lex.push(self.uchar(8)?),
                    _ => return self.err("bad escape in literal"),
                },
                '\n' | '\r' => return self.err("raw line break in literal"),
                c => lex.push(c),
            }
        }
        match self.peek() {
            Some(b'@') => {
                self.i += 1;
                let start = self.i;
                while matches!(self.peek(), Some(b'a'..=b'z' | b'A'..=b'Z')) {
                    self.i += 1;
                }
                if self.i == start {
                    return self.err("empty language tag");
                }
                while self.peek() == Some(b'-') {
                    let seg = self.i + 1;
                    let mut j = seg;
                    while matches!(self.s.get(j), Some(b'a'..=b'z' | b'A'..=b'Z' | b'0'..=b'9')) {
                        j += 1;
                    }
                    if j == seg {
                        break;
                    }
                    self.i = j;
                }
                let tag = std::str::from_utf8(&self.s[start..self.i]).unwrap();
                Ok(MTerm::Lang(lex, tag.to_ascii_lowercase()))
            }
            Some(b'^') => {
                if self.s.get(self.i + 1) != Some(&b'^') || self.s.get(self.i + 2) != Some(&b'<') {
                    return self.err("expected ^^<");
                }
                self.i += 2;
                let dt = self.iriref()?;
                Ok(MTerm::Lit(lex, dt))
            }
            _ => Ok(MTerm::Lit(lex, XSD_STRING.to_string())),
        }
    }
    fn term(&mut self, depth: usize) -> Result<MTerm, NqError> {
        if depth > 64 {
            return self.err("nesting too deep");
        }
        match self.peek() {
            Some(b'<') if self.s.get(self.i + 1) == Some(&b'<') => {
                self.i += 2;
                self.ws();
                let s = self.term(depth + 1)?;
                self.ws();
                let p = self.term(depth + 1)?;
                self.ws();
                let o = self.term(depth + 1)?;
                self.ws();
                if self.peek() == Some(b'>') && self.s.get(self.i + 1) == Some(&b'>') {
                    self.i += 2;
                    Ok(MTerm::Triple(Box::new([s, p, o])))
                } else {
                    self.err("expected >>")
                }
            }
            Some(b'<') => Ok(MTerm::Iri(self.iriref()?)),
            Some(b'_') if self.s.get(self.i + 1) == Some(&b':') => Ok(MTerm::Bnode(self.bnode()?)),
            Some(b'"') => self.literal(),
            Some(b'?') => {
                self.i += 1;
                let mut out = String::new();
                loop {
                    let save = self.i;
                    let Ok(c) = self.next_char() else {
                        self.i = save;
                        break;
                    };
                    if (pn_chars(c) && c != ':' && c != '-') || c.is_ascii_digit() {
                        out.push(c);
                    } else {
                        self.i = save;
                        break;
                    }
                }
                if out.is_empty() {
                    return self.err("empty variable name");
                }
                Ok(MTerm::Var(out))
            }
            _ => self.err("expected a term"),
        }
    }
}

/// Parse an N-Quads(-star) document. Every statement must sit on its own line, terminated by
/// a line break (the last line break may be missing only if `require_final_eol` is false).
pub fn parse_nquads(doc: &[u8], require_final_eol: bool) -> Result<Vec<MQuad>, NqError> {
    let mut out = Vec::new();
    let mut lines: Vec<&[u8]> = doc.split(|b| *b == b'\n').collect();
    let last = lines.pop().unwrap_or(&[]);
    if !last.is_empty() {
        if require_final_eol {
            return Err(NqError {
                line: lines.len() + 1,
                col: 0,
                msg: "last statement is not terminated by a line break".into(),
            });
        }
        lines.push(last);
    }
    for (n, raw) in lines.iter().enumerate() {
        let raw = raw.strip_suffix(b"\r").unwrap_or(raw);
        let mut p = P {
            s: raw,
            i: 0,
            line: n + 1,
        };
        p.ws();
        match p.peek() {
            None | Some(b'#') => continue,
            _ => {}
        }
        let s = p.term(0)?;
        p.ws();
        let pr = p.term(0)?;
        p.ws();
        let o = p.term(0)?;
        p.ws();
        let g = if p.peek() == Some(b'.') {
            None
        } else {
            let g = p.term(0)?;
            p.ws();
            Some(g)
        };
        if p.peek() != Some(b'.') {
            return p.err("expected '.'");
        }
        p.i += 1;
        p.ws();
        match p.peek() {
            None | Some(b'#') => {}
            _ => return p.err("trailing characters after '.'"),
        }
        out.push(([s, pr, o], g));
    }
    Ok(out)
}

#[cfg(test)]
mod test {
    use super::*;

    #[test]
    fn basic() {
        let doc = b"<http://a/s> <http://a/p> \"x\\n\\\"y\\u00e9\"@en-US <http://a/g> .\n_:b1.c <http://a/p> << _:b <http://a/p> \"1\"^^<http://a/dt> >> .\n";
        let q = parse_nquads(doc, true).unwrap();
        assert_eq!(q.len(), 2);
        assert_eq!(q[0].0[2], MTerm::Lang("x\n\"y\u{e9}".into(), "en-us".into()));
        assert_eq!(q[1].0[0], MTerm::Bnode("b1.c".into()));
        assert!(matches!(q[1].0[2], MTerm::Triple(_)));
        assert!(parse_nquads(b"<a> <b> \"x\ny\" .\n", true).is_err());
        assert!(parse_nquads(b"<a> <b> <c> .", true).is_err());
    }
}
