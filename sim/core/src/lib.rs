//! Deterministic simulation kernel for the sophia_rs checks (see /verif/DESIGN.md §3).
pub mod ctx;
pub mod driver;
pub mod r#gen;
pub mod hashseed;
pub mod model;
pub mod nq;
pub mod rng;
pub mod seams;
pub mod tape;

pub use ctx::{Ctx, Verdict, Violation};
pub use driver::{Scenario, main_with};
pub use tape::Tape;
