//! Per-run context: tape, event log (hashed always, kept as text when tracing), counters.

use crate::tape::Tape;
use std::collections::BTreeMap;
use std::fmt::{self, Write as _};

#[derive(Clone, Debug)]
pub struct Violation {
    /// violation class; stable across shrinking
    pub oracle: String,
    /// specific description (input / fault position / call site)
    pub msg: String,
}

impl Violation {
    pub fn new(oracle: impl Into<String>, msg: impl Into<String>) -> Self {
        Self {
            oracle: oracle.into(),
            msg: msg.into(),
        }
    }
}

pub type Verdict = Result<(), Violation>;

#[macro_export]
macro_rules! violation {
    ($oracle:expr, $($arg:tt)*) => {
        return Err($crate::ctx::Violation::new($oracle, format!($($arg)*)))
    };
}

#[macro_export]
macro_rules! ensure {
    ($cond:expr, $oracle:expr, $($arg:tt)*) => {
        if !($cond) {
            return Err($crate::ctx::Violation::new($oracle, format!($($arg)*)));
        }
    };
}

pub type Counters = BTreeMap<&'static str, u64>;

pub struct Ctx {
    pub tape: Tape,
    pub trace_on: bool,
    pub trace: Vec<String>,
    pub ev_hash: u64,
    pub events: u64,
    /// fault kinds that actually fired
    pub faults: Counters,
    /// rare-condition probes and workload counters
    pub probes: Counters,
    /// run signature accumulator (config id, op kinds, fault kinds/position classes)
    pub sig: u64,
    pub sig_items: u32,
    /// a fault fired inside an operation in this run
    pub fault_in_op: bool,
    /// number of operations/statements executed (for the non-triviality rule)
    pub ops: u64,
    /// a printable sample of what this run did (only filled when trace_on or asked)
    pub want_sample: bool,
    pub sample: Vec<String>,
    /// print events and samples to stderr as they happen (replay of runs that kill the process)
    pub live: bool,
}

struct HashSink<'a>(&'a mut u64);
impl fmt::Write for HashSink<'_> {
    #[inline]
    fn write_str(&mut self, s: &str) -> fmt::Result {
        let mut h = *self.0;
        for b in s.as_bytes() {
            h ^= u64::from(*b);
            h = h.wrapping_mul(0x0000_0100_0000_01B3);
        }
        *self.0 = h;
        Ok(())
    }
}

impl Ctx {
    pub fn new(tape: Tape, trace_on: bool) -> Self {
        Self {
            tape,
            trace_on,
            trace: Vec::new(),
            ev_hash: 0xcbf2_9ce4_8422_2325,
            events: 0,
            faults: Counters::new(),
            probes: Counters::new(),
            sig: 0xcbf2_9ce4_8422_2325,
            sig_items: 0,
            fault_in_op: false,
            ops: 0,
            want_sample: trace_on,
            sample: Vec::new(),
            live: trace_on && std::env::var_os("VERIF_LIVE_TRACE").is_some(),
        }
    }

    /// Record an event: always folded into the event hash, kept as text only when tracing.
    /// Never draws from the tape, never reads a clock.
    #[inline]
    pub fn ev(&mut self, args: fmt::Arguments<'_>) {
        self.events += 1;
        let _ = HashSink(&mut self.ev_hash).write_fmt(args);
        let _ = HashSink(&mut self.ev_hash).write_str("\n");
        if self.trace_on {
            if self.live {
                eprintln!("  | {}", fmt::format(args));
            }
            self.trace.push(fmt::format(args));
        }
    }

    /// Fold raw data into the event hash without formatting (hot paths).
    #[inline]
    pub fn ev_raw(&mut self, tag: u8, data: &[u8]) {
        self.events += 1;
        let mut h = self.ev_hash ^ u64::from(tag);
        h = h.wrapping_mul(0x0000_0100_0000_01B3);
        for b in data {
            h ^= u64::from(*b);
            h = h.wrapping_mul(0x0000_0100_0000_01B3);
        }
        self.ev_hash = h;
    }

    #[inline]
    pub fn fault(&mut self, kind: &'static str) {
        *self.faults.entry(kind).or_insert(0) += 1;
    }

    #[inline]
    pub fn fault_n(&mut self, kind: &'static str, n: u64) {
        if n > 0 {
            *self.faults.entry(kind).or_insert(0) += n;
        }
    }

    #[inline]
    pub fn probe(&mut self, name: &'static str) {
        *self.probes.entry(name).or_insert(0) += 1;
    }

    #[inline]
    pub fn probe_n(&mut self, name: &'static str, n: u64) {
        if n > 0 {
            *self.probes.entry(name).or_insert(0) += n;
        }
    }

    /// Contribute to the run signature (distinctness measure).
    #[inline]
    pub fn sig(&mut self, item: &str) {
        let mut h = self.sig;
        for b in item.as_bytes() {
            h ^= u64::from(*b);
            h = h.wrapping_mul(0x0000_0100_0000_01B3);
        }
        h ^= 0xff;
        h = h.wrapping_mul(0x0000_0100_0000_01B3);
        self.sig = h;
        self.sig_items += 1;
    }

    #[inline]
    pub fn sig_u(&mut self, v: u64) {
        let mut h = self.sig ^ v;
        h = h.wrapping_mul(0x0000_0100_0000_01B3);
        h ^= h >> 29;
        self.sig = h;
        self.sig_items += 1;
    }

    pub fn sample(&mut self, line: impl FnOnce() -> String) {
        if self.want_sample && self.sample.len() < 200 {
            let l = line();
            if self.live {
                eprintln!("  : {l}");
            }
            self.sample.push(l);
        }
    }
}

#[macro_export]
macro_rules! ev {
    ($ctx:expr, $($arg:tt)*) => {
        $ctx.ev(format_args!($($arg)*))
    };
}
