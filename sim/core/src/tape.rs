//! The choice tape: the single source of every decision in a run.
//!
//! Record mode draws from a PRNG seeded by (VERIF_SEED, scenario, run index) and records the
//! values; replay mode reads a recorded tape and answers 0 once it is exhausted.
//! Convention everywhere: **0 is the benign / simplest choice**, so that zeroing or deleting
//! tape entries removes faults and operations (generic shrinking).

use crate::rng::Xoshiro;

#[derive(Clone, Debug)]
pub struct Tape {
    rng: Option<Xoshiro>,
    replay: Vec<u64>,
    pos: usize,
    /// values actually handed out (after clamping), in order
    pub rec: Vec<u64>,
}

impl Tape {
    pub fn record(seed: u64) -> Self {
        Self {
            rng: Some(Xoshiro::new(seed)),
            replay: Vec::new(),
            pos: 0,
            rec: Vec::new(),
        }
    }

    pub fn replay(values: Vec<u64>) -> Self {
        Self {
            rng: None,
            replay: values,
            pos: 0,
            rec: Vec::new(),
        }
    }

    pub fn is_replay(&self) -> bool {
        self.rng.is_none()
    }

    /// A value in [0, bound). bound == 0 is treated as 1.
    #[inline]
    pub fn draw(&mut self, bound: u64) -> u64 {
        let bound = bound.max(1);
        let v = match &mut self.rng {
            Some(r) => r.below(bound),
            None => {
                let v = self.replay.get(self.pos).copied().unwrap_or(0);
                self.pos += 1;
                if v < bound { v } else { v % bound }
            }
        };
        self.rec.push(v);
        v
    }

    #[inline]
    pub fn below(&mut self, bound: usize) -> usize {
        self.draw(bound as u64) as usize
    }

    /// in [lo, hi] inclusive; 0 on the tape maps to lo.
    #[inline]
    pub fn range(&mut self, lo: usize, hi: usize) -> usize {
        debug_assert!(hi >= lo);
        lo + self.below(hi - lo + 1)
    }

    /// true with probability num/den; tape value 0 always means false.
    #[inline]
    pub fn chance(&mut self, num: u64, den: u64) -> bool {
        let v = self.draw(den);
        v >= den - num.min(den)
    }

    #[inline]
    pub fn flag(&mut self) -> bool {
        self.draw(2) == 1
    }

    #[inline]
    pub fn pick<'a, T>(&mut self, items: &'a [T]) -> &'a T {
        &items[self.below(items.len())]
    }
}
