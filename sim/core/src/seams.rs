//! The stream seams: `SimWriter` (io::Write) and `SimReader` (io::Read + io::BufRead).
//!
//! Both take a *plan* drawn from the tape before the operation starts, so that they need no
//! access to the context while the code under test runs, and record everything they did in a
//! shared state the scenario inspects afterwards.
//!
//! Contracts honoured (std): `write` on a non-empty buffer accepts >= 1 byte unless it errs;
//! `read` returns 0 only at true end of data; hard errors are sticky; `Interrupted` comes in
//! bursts of at most 3.

use crate::ctx::Ctx;
use crate::tape::Tape;
use std::fmt;
use std::io::{self, BufRead, ErrorKind, Read, Write};
use std::sync::{Arc, Mutex};

/// Payload of every injected error, so that the oracle can check error identity.
#[derive(Debug, Clone, PartialEq, Eq)]
pub struct SimFault {
    pub id: u32,
}

impl fmt::Display for SimFault {
    fn fmt(&self, f: &mut fmt::Formatter<'_>) -> fmt::Result {
        write!(f, "injected fault #{}", self.id)
    }
}
impl std::error::Error for SimFault {}

pub const HARD_KINDS: [ErrorKind; 5] = [
    ErrorKind::Other,
    ErrorKind::BrokenPipe,
    ErrorKind::StorageFull,
    ErrorKind::PermissionDenied,
    ErrorKind::UnexpectedEof,
];

pub fn sim_io_error(id: u32, kind: ErrorKind) -> io::Error {
    io::Error::new(kind, SimFault { id })
}

/// Does this io::Error carry the injected fault `id`?
pub fn io_error_is_fault(e: &io::Error, id: u32) -> bool {
    e.get_ref()
        .and_then(|inner| inner.downcast_ref::<SimFault>())
        .is_some_and(|f| f.id == id)
}

/// Look for the injected fault anywhere inside an error: the error itself, the payload of an
/// `io::Error` (recursively: serializers wrap io errors into io errors), or its `source()` chain.
pub fn chain_has_fault(e: &(dyn std::error::Error + 'static), id: u32) -> bool {
    fn go(e: &(dyn std::error::Error + 'static), id: u32, depth: u32) -> bool {
        if depth > 24 {
            return false;
        }
        if let Some(f) = e.downcast_ref::<SimFault>() {
            if f.id == id {
                return true;
            }
        }
        if let Some(ioe) = e.downcast_ref::<io::Error>() {
            if let Some(inner) = ioe.get_ref() {
                if go(inner, id, depth + 1) {
                    return true;
                }
            }
        }
        if let Some(arc) = e.downcast_ref::<Arc<io::Error>>() {
            if go(arc.as_ref(), id, depth + 1) {
                return true;
            }
        }
        match e.source() {
            Some(s) => go(s, id, depth + 1),
            None => false,
        }
    }
    go(e, id, 0)
}

/// Weakest acceptable evidence that an error carries the injected fault: its Debug rendering
/// shows the payload (used where a dependency keeps the io::Error behind an `Arc` or an enum
/// that `source()` does not traverse).
pub fn debug_shows_fault(e: &(dyn std::error::Error + 'static), id: u32) -> bool {
    format!("{e:?}").contains(&format!("SimFault {{ id: {id} }}"))
}

// ---------------------------------------------------------------------------------------------
// noise plans

/// Per-call noise codes: 0 = full, 1 = one byte, 2 = half, 3 = Interrupted, 4 = two bytes,
/// 5 = three bytes, 6 = seven bytes.
#[derive(Clone, Debug, Default)]
pub struct Noise {
    pub codes: Vec<u8>,
}

impl Noise {
    pub fn perfect() -> Self {
        Self { codes: Vec::new() }
    }

    /// Draw a noise cycle. With `eintr` false code 3 is never produced.
    pub fn draw(t: &mut Tape, eintr: bool) -> Self {
        let len = t.below(9);
        let mut codes = Vec::with_capacity(len);
        for _ in 0..len {
            let mut c = t.below(7) as u8;
            if c == 3 && !eintr {
                c = 1;
            }
            codes.push(c);
        }
        Self { codes }
    }

    pub fn is_perfect(&self) -> bool {
        self.codes.iter().all(|c| *c == 0)
    }

    #[inline]
    fn at(&self, call: u64) -> u8 {
        if self.codes.is_empty() {
            0
        } else {
            self.codes[(call % self.codes.len() as u64) as usize]
        }
    }

    #[inline]
    fn limit(code: u8, avail: usize) -> usize {
        let n = match code {
            1 => 1,
            2 => avail.div_ceil(2),
            4 => 2,
            5 => 3,
            6 => 7,
            _ => avail,
        };
        n.clamp(1, avail.max(1))
    }
}

// ---------------------------------------------------------------------------------------------
// writer

#[derive(Clone, Debug, Default)]
pub struct WPlan {
    pub noise: Noise,
    /// accept exactly this many bytes in total, then fail the next write call (sticky)
    pub fail_at: Option<usize>,
    /// fail the first flush call (sticky)
    pub fail_flush: bool,
    /// "full disk": after the write fault every further write fails too, but flush reports
    /// nothing (a writer is free to do so; code that relies on a later flush to surface an
    /// earlier write error loses it)
    pub flush_ok_after_write_fault: bool,
    /// "transient": only the ONE write call that meets the fault fails; every later write and
    /// flush succeeds again (EAGAIN / a disk that was full for a moment). Code that goes on
    /// writing after a failed write leaves bytes in the writer that are not a prefix of the
    /// fault-free output — with a sticky fault those later calls would fail and leave no trace.
    pub transient: bool,
    pub fault_id: u32,
    pub kind: Option<ErrorKind>,
}

#[derive(Debug, Default)]
pub struct WState {
    pub plan: WPlan,
    pub accepted: Vec<u8>,
    pub calls: u64,
    pub short_writes: u64,
    pub eintr: u64,
    pub flushes: u64,
    pub hard_fired: bool,
    /// which call kind the hard fault fired on
    pub hard_on_flush: bool,
    pub calls_after_hard: u64,
    eintr_run: u8,
    pub events: u64,
    pub call_hash: u64,
}

impl WState {
    fn note(&mut self, tag: u8, a: usize, b: usize) {
        self.events += 1;
        let mut h = self.call_hash ^ (u64::from(tag) << 56) ^ ((a as u64) << 24) ^ b as u64;
        h = h.wrapping_mul(0x0000_0100_0000_01B3);
        h ^= h >> 31;
        self.call_hash = h;
    }
}

#[derive(Clone)]
pub struct SimWriter(pub Arc<Mutex<WState>>);

impl SimWriter {
    pub fn new(plan: WPlan) -> Self {
        Self(Arc::new(Mutex::new(WState {
            plan,
            call_hash: 0xcbf2_9ce4_8422_2325,
            ..Default::default()
        })))
    }

    pub fn perfect() -> Self {
        Self::new(WPlan::default())
    }

    pub fn handle(&self) -> Self {
        self.clone()
    }

    pub fn with<R>(&self, f: impl FnOnce(&WState) -> R) -> R {
        f(&self.0.lock().unwrap())
    }

    pub fn accepted(&self) -> Vec<u8> {
        self.0.lock().unwrap().accepted.clone()
    }

    /// Fold what the writer did into the context (event hash, fault counters).
    pub fn absorb(&self, ctx: &mut Ctx) {
        let s = self.0.lock().unwrap();
        ctx.events += s.events;
        ctx.ev_raw(b'W', &s.call_hash.to_le_bytes());
        ctx.fault_n("write_short", s.short_writes);
        ctx.fault_n("write_eintr", s.eintr);
        if s.hard_fired {
            ctx.fault(if s.hard_on_flush {
                "flush_error"
            } else {
                "write_error"
            });
            ctx.fault_in_op = true;
        } else if s.plan.fail_at.is_some() || s.plan.fail_flush {
            ctx.probe("fault_configured_not_fired");
        }
        if s.short_writes + s.eintr > 0 {
            ctx.fault_in_op = true;
        }
    }
}

impl Write for SimWriter {
    fn write(&mut self, buf: &[u8]) -> io::Result<usize> {
        let mut s = self.0.lock().unwrap();
        let call = s.calls;
        s.calls += 1;
        if s.hard_fired {
            s.calls_after_hard += 1;
        }
        if s.hard_fired && !(s.plan.transient && !s.hard_on_flush) {
            s.note(b'x', buf.len(), 0);
            return Err(sim_io_error(
                s.plan.fault_id,
                s.plan.kind.unwrap_or(ErrorKind::Other),
            ));
        }
        if buf.is_empty() {
            s.note(b'e', 0, 0);
            return Ok(0);
        }
        let mut room = usize::MAX;
        if let Some(off) = s.plan.fail_at.filter(|_| !s.hard_fired) {
            if s.accepted.len() >= off {
                s.hard_fired = true;
                s.hard_on_flush = false;
                s.note(b'F', buf.len(), 0);
                return Err(sim_io_error(
                    s.plan.fault_id,
                    s.plan.kind.unwrap_or(ErrorKind::Other),
                ));
            }
            room = off - s.accepted.len();
        }
        let code = s.plan.noise.at(call);
        if code == 3 && s.eintr_run < 3 {
            s.eintr_run += 1;
            s.eintr += 1;
            s.note(b'i', buf.len(), 0);
            return Err(io::Error::from(ErrorKind::Interrupted));
        }
        s.eintr_run = 0;
        let n = Noise::limit(code, buf.len()).min(room).max(1).min(buf.len());
        if n < buf.len() {
            s.short_writes += 1;
        }
        s.accepted.extend_from_slice(&buf[..n]);
        s.note(b'w', buf.len(), n);
        Ok(n)
    }

    fn flush(&mut self) -> io::Result<()> {
        let mut s = self.0.lock().unwrap();
        s.flushes += 1;
        if s.hard_fired && !s.hard_on_flush && (s.plan.flush_ok_after_write_fault || s.plan.transient) {
            s.calls_after_hard += 1;
            s.note(b'f', 0, 0);
            return Ok(());
        }
        if s.hard_fired {
            s.calls_after_hard += 1;
            return Err(sim_io_error(
                s.plan.fault_id,
                s.plan.kind.unwrap_or(ErrorKind::Other),
            ));
        }
        if s.plan.fail_flush {
            s.hard_fired = true;
            s.hard_on_flush = true;
            s.note(b'G', 0, 0);
            return Err(sim_io_error(
                s.plan.fault_id,
                s.plan.kind.unwrap_or(ErrorKind::Other),
            ));
        }
        s.note(b'f', 0, 0);
        Ok(())
    }
}

// ---------------------------------------------------------------------------------------------
// reader

#[derive(Clone, Debug, Default)]
pub struct RPlan {
    pub noise: Noise,
    /// deliver exactly this many bytes, then fail (sticky)
    pub fail_at: Option<usize>,
    pub fault_id: u32,
    pub kind: Option<ErrorKind>,
    /// upper bound on the chunk handed out by one fill_buf/read (0 = 8192)
    pub max_chunk: usize,
}

#[derive(Debug, Default)]
pub struct RState {
    pub delivered: usize,
    pub calls: u64,
    pub short_reads: u64,
    pub eintr: u64,
    pub hard_fired: bool,
    pub calls_after_hard: u64,
    pub eof_seen: u64,
    pub events: u64,
    pub call_hash: u64,
    eintr_run: u8,
}

impl RState {
    fn note(&mut self, tag: u8, a: usize, b: usize) {
        self.events += 1;
        let mut h = self.call_hash ^ (u64::from(tag) << 56) ^ ((a as u64) << 24) ^ b as u64;
        h = h.wrapping_mul(0x0000_0100_0000_01B3);
        h ^= h >> 31;
        self.call_hash = h;
    }
}

pub struct SimReader {
    data: Arc<[u8]>,
    pos: usize,
    /// end of the window currently exposed through fill_buf
    win_end: usize,
    plan: RPlan,
    pub state: Arc<Mutex<RState>>,
}

#[derive(Clone)]
pub struct RHandle(pub Arc<Mutex<RState>>);

impl RHandle {
    pub fn with<R>(&self, f: impl FnOnce(&RState) -> R) -> R {
        f(&self.0.lock().unwrap())
    }

    pub fn absorb(&self, ctx: &mut Ctx, configured_hard: bool) {
        let s = self.0.lock().unwrap();
        ctx.events += s.events;
        ctx.ev_raw(b'R', &s.call_hash.to_le_bytes());
        ctx.fault_n("read_short", s.short_reads);
        ctx.fault_n("read_eintr", s.eintr);
        if s.hard_fired {
            ctx.fault("read_error");
            ctx.fault_in_op = true;
        } else if configured_hard {
            ctx.probe("fault_configured_not_fired");
        }
        if s.short_reads + s.eintr > 0 {
            ctx.fault_in_op = true;
        }
    }
}

impl SimReader {
    pub fn new(data: impl Into<Arc<[u8]>>, plan: RPlan) -> Self {
        Self {
            data: data.into(),
            pos: 0,
            win_end: 0,
            plan,
            state: Arc::new(Mutex::new(RState {
                call_hash: 0xcbf2_9ce4_8422_2325,
                ..Default::default()
            })),
        }
    }

    pub fn perfect(data: impl Into<Arc<[u8]>>) -> Self {
        Self::new(data, RPlan::default())
    }

    pub fn handle(&self) -> RHandle {
        RHandle(self.state.clone())
    }

    /// Decide the next delivery: Ok(n) bytes available from pos, or an error.
    fn next_chunk(&mut self, want: usize) -> io::Result<usize> {
        let mut s = self.state.lock().unwrap();
        let call = s.calls;
        s.calls += 1;
        if s.hard_fired {
            s.calls_after_hard += 1;
            s.note(b'x', 0, 0);
            return Err(sim_io_error(
                self.plan.fault_id,
                self.plan.kind.unwrap_or(ErrorKind::Other),
            ));
        }
        let mut end = self.data.len();
        if let Some(off) = self.plan.fail_at {
            if self.pos >= off {
                s.hard_fired = true;
                s.note(b'F', self.pos, 0);
                return Err(sim_io_error(
                    self.plan.fault_id,
                    self.plan.kind.unwrap_or(ErrorKind::Other),
                ));
            }
            end = end.min(off);
        }
        let avail = end.saturating_sub(self.pos);
        if avail == 0 {
            s.eof_seen += 1;
            s.note(b'z', self.pos, 0);
            return Ok(0);
        }
        let code = self.plan.noise.at(call);
        if code == 3 && s.eintr_run < 3 {
            s.eintr_run += 1;
            s.eintr += 1;
            s.note(b'i', self.pos, 0);
            return Err(io::Error::from(ErrorKind::Interrupted));
        }
        s.eintr_run = 0;
        let cap = if self.plan.max_chunk == 0 {
            8192
        } else {
            self.plan.max_chunk
        };
        let full = avail.min(want).min(cap);
        let n = Noise::limit(code, full).min(full).max(1);
        if n < full {
            s.short_reads += 1;
        }
        s.note(b'r', self.pos, n);
        Ok(n)
    }
}

impl Read for SimReader {
    fn read(&mut self, buf: &mut [u8]) -> io::Result<usize> {
        if buf.is_empty() {
            return Ok(0);
        }
        // serve from an already exposed window first
        if self.win_end > self.pos {
            let n = (self.win_end - self.pos).min(buf.len());
            buf[..n].copy_from_slice(&self.data[self.pos..self.pos + n]);
            self.pos += n;
            self.state.lock().unwrap().delivered = self.pos;
            return Ok(n);
        }
        let n = self.next_chunk(buf.len())?;
        buf[..n].copy_from_slice(&self.data[self.pos..self.pos + n]);
        self.pos += n;
        self.win_end = self.pos;
        self.state.lock().unwrap().delivered = self.pos;
        Ok(n)
    }
}

impl BufRead for SimReader {
    fn fill_buf(&mut self) -> io::Result<&[u8]> {
        if self.win_end <= self.pos {
            let n = self.next_chunk(usize::MAX)?;
            self.win_end = self.pos + n;
        }
        Ok(&self.data[self.pos..self.win_end])
    }

    fn consume(&mut self, amt: usize) {
        self.pos = (self.pos + amt).min(self.win_end);
        self.state.lock().unwrap().delivered = self.pos;
    }
}
