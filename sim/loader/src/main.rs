//! C19 — the local resource loader never reads outside its configured directories.
//!
//! The simulated component is the disk: a guarded interposer (feature `verif_hooks` of
//! sophia_resource) sees every path `LocalLoader::get` hands to the file system, answers from a
//! simulated directory tree (or lets the real read happen in "real fs" runs), and injects read
//! faults. File contents are hostile: they link to IRIs with dot segments, empty segments, a
//! leading '/', encoded dots/slashes, backslashes, fragments, inside, outside and across roots.

use simcore::ctx::{Ctx, Verdict, Violation};
use simcore::driver::Scenario;
use simcore::{ensure, ev};
use sophia_api::term::SimpleTerm;
use sophia_iri::Iri;
use sophia_resource::loader::verif::set_fs_interposer;
use sophia_resource::{Loader, LoaderError, LocalLoader, Resource};
use std::borrow::Borrow;
use std::collections::BTreeMap;
use std::io;
use std::path::{Component, Path, PathBuf};
use std::sync::{Arc, Mutex};

simcore::install_getrandom!();

type G = Vec<[SimpleTerm<'static>; 3]>;

// ---------------------------------------------------------------------------------------------
// the simulated disk

fn normalize(p: &Path) -> PathBuf {
    let mut out = PathBuf::new();
    for c in p.components() {
        match c {
            Component::RootDir => out.push("/"),
            Component::CurDir => {}
            Component::ParentDir => {
                if out != Path::new("/") {
                    out.pop();
                }
            }
            Component::Normal(x) => out.push(x),
            Component::Prefix(_) => {}
        }
    }
    out
}

#[derive(Clone, Debug, PartialEq, Eq)]
enum Fault {
    NotFound,
    PermissionDenied,
    Eio,
    IsADirectory,
    Truncate(usize),
    Corrupt(usize),
}

#[derive(Default)]
struct Disk {
    /// normalised path -> content
    files: BTreeMap<PathBuf, Vec<u8>>,
    /// read attempt number -> fault
    faults: BTreeMap<usize, Fault>,
    real_fs: bool,
    // ---- observations
    attempts: usize,
    /// (iri being fetched, raw path, normalised path)
    reads: Vec<(String, PathBuf, PathBuf)>,
    /// content served by the last successful read of the current get
    last_served: Option<(PathBuf, Vec<u8>)>,
    /// a non-NotFound error was injected on the first read attempt of the current get
    hard_fault_on_first_read: bool,
    reads_in_current_get: usize,
    current_iri: Vec<String>,
    faults_fired: Vec<&'static str>,
    violation: Option<Violation>,
    /// configured (namespace, directory)
    config: Vec<(String, PathBuf)>,
}

impl Disk {
    fn allowed_dirs(&self, iri: &str) -> Vec<&PathBuf> {
        let stripped = iri.split('#').next().unwrap_or("");
        self.config
            .iter()
            .filter(|(ns, _)| stripped.starts_with(ns.as_str()))
            .map(|(_, d)| d)
            .collect()
    }

    fn on_read(&mut self, raw: &Path) -> Option<io::Result<Vec<u8>>> {
        let n = self.attempts;
        self.attempts += 1;
        let norm = normalize(raw);
        let iri = self.current_iri.last().cloned().unwrap_or_default();
        // ---- the invariant, checked at every attempt (whether or not a file is there)
        if self.violation.is_none() {
            let allowed = self.allowed_dirs(&iri);
            let inside = allowed.iter().any(|d| norm.starts_with(d));
            if !inside {
                self.violation = Some(Violation::new(
                    if allowed.is_empty() {
                        "read_without_matching_namespace"
                    } else {
                        "read_outside_configured_dirs"
                    },
                    format!(
                        "while fetching <{iri}> the loader tried to read {} (= {}), which is not inside {:?} (configuration: {:?})",
                        raw.display(),
                        norm.display(),
                        allowed,
                        self.config
                    ),
                ));
            }
        }
        self.reads.push((iri, raw.to_path_buf(), norm.clone()));
        let first_of_get = self.reads_in_current_get == 0;
        self.reads_in_current_get += 1;
        // ---- faults
        let fault = self.faults.get(&n).cloned();
        let served: io::Result<Vec<u8>> = if self.real_fs && fault.is_none() {
            return None;
        } else {
            match self.files.get(&norm) {
                Some(c) => Ok(c.clone()),
                None if self.files.keys().any(|k| k.starts_with(&norm)) => {
                    Err(io::Error::new(io::ErrorKind::IsADirectory, "simulated: is a directory"))
                }
                None => Err(io::Error::new(io::ErrorKind::NotFound, "simulated: no such file")),
            }
        };
        let res = match fault {
            None => served,
            Some(Fault::NotFound) => {
                self.faults_fired.push("fs_spurious_not_found");
                Err(io::Error::new(io::ErrorKind::NotFound, "injected: not found"))
            }
            Some(Fault::PermissionDenied) => {
                self.faults_fired.push("fs_permission_denied");
                if first_of_get {
                    self.hard_fault_on_first_read = true;
                }
                Err(io::Error::new(io::ErrorKind::PermissionDenied, "injected: EACCES"))
            }
            Some(Fault::Eio) => {
                self.faults_fired.push("fs_eio");
                if first_of_get {
                    self.hard_fault_on_first_read = true;
                }
                Err(io::Error::other("injected: EIO"))
            }
            Some(Fault::IsADirectory) => {
                self.faults_fired.push("fs_is_a_directory");
                if first_of_get {
                    self.hard_fault_on_first_read = true;
                }
                Err(io::Error::new(io::ErrorKind::IsADirectory, "injected: EISDIR"))
            }
            Some(Fault::Truncate(k)) => served.map(|mut c| {
                self.faults_fired.push("fs_truncated_content");
                c.truncate(k.min(c.len()));
                c
            }),
            Some(Fault::Corrupt(k)) => served.map(|mut c| {
                self.faults_fired.push("fs_corrupted_content");
                if !c.is_empty() {
                    let i = k % c.len();
                    c[i] ^= 0x24;
                }
                c
            }),
        };
        if let Ok(c) = &res {
            self.last_served = Some((norm, c.clone()));
        }
        Some(res)
    }
}

// ---------------------------------------------------------------------------------------------
// a Loader that records which IRI is being fetched, then delegates to the real LocalLoader

struct Spy {
    inner: LocalLoader,
    disk: Arc<Mutex<Disk>>,
}

impl Loader for Spy {
    fn get<T: Borrow<str>>(&self, iri: Iri<T>) -> Result<(Vec<u8>, String), LoaderError> {
        {
            let mut d = self.disk.lock().unwrap();
            d.current_iri.push(iri.as_str().to_string());
            d.reads_in_current_get = 0;
            d.last_served = None;
            d.hard_fault_on_first_read = false;
        }
        let res = self.inner.get(iri.as_ref());
        let mut d = self.disk.lock().unwrap();
        let iri_s = d.current_iri.pop().unwrap_or_default();
        if d.violation.is_none() {
            let allowed_empty = d.allowed_dirs(&iri_s).is_empty();
            match &res {
                Ok((data, _ctype)) => {
                    if allowed_empty {
                        d.violation = Some(Violation::new(
                            "content_without_matching_namespace",
                            format!("<{iri_s}> matches no configured namespace, yet get() returned {} bytes", data.len()),
                        ));
                    } else if !d.real_fs {
                        match &d.last_served {
                            Some((_, served)) if served == data => {}
                            other => {
                                d.violation = Some(Violation::new(
                                    "returned_bytes_not_from_an_allowed_file",
                                    format!(
                                        "get(<{iri_s}>) returned {} bytes that are not what the disk served last ({:?})",
                                        data.len(),
                                        other.as_ref().map(|(p, c)| (p.clone(), c.len()))
                                    ),
                                ));
                            }
                        }
                    }
                    if d.hard_fault_on_first_read && d.violation.is_none() {
                        d.violation = Some(Violation::new(
                            "read_error_swallowed",
                            format!("the first read for <{iri_s}> failed with an injected I/O error, yet get() returned Ok"),
                        ));
                    }
                }
                Err(_) => {}
            }
        }
        res
    }
}

// ---------------------------------------------------------------------------------------------
// the directory tree and hostile IRIs

const NAMESPACES: &[&str] = &[
    "http://ex.org/ns/",
    "http://ex.org/ns/sub/",
    "http://ex.org/",
    "http://other.org/v/",
    "http://ex.org/ns/a/",
];

const DIRS: &[&str] = &["roots/r0", "roots/r0/nested", "roots/r1", "roots/r2"];

/// files under each root (relative), plus canaries outside every root
const REL_FILES: &[&str] = &[
    "a.ttl", "b.nt", "c", "c.ttl", "sub/d.ttl", "sub/e", "sub/e.nt", "x.jsonld", "y.rdf", "index.ttl",
    "nested/n.ttl", "sub/ctx.jsonld", "%2e%2e/enc.ttl", "a\\b.ttl", "deep/er/f.ttl", "secret.ttl",
];

const OUTSIDE_FILES: &[&str] = &["outside/secret.ttl", "secret.ttl", "roots/secret.ttl", "outside/ctx.jsonld", "outside/secret"];

const SEGMENTS: &[&str] = &[
    "a.ttl", "b.nt", "c", "sub", "d.ttl", "e", "x.jsonld", "y.rdf", "index.ttl", "..", ".", "", "%2e%2e", "%2E%2E%2F", "%2f",
    "..%2f", "a\\b.ttl", "\\..\\", "nested", "n.ttl", "secret.ttl", "secret", "outside", "roots", "r0", "r1", "deep", "er", "f.ttl",
    "ctx.jsonld", "nothing", "a", "?q=1", "c.", ".ttl", "...", "..ttl",
];

fn hostile_iri(ctx: &mut Ctx, base: &Path) -> String {
    let t = &mut ctx.tape;
    if t.chance(3, 8) {
        // an existing file under a known namespace, possibly with harmless or harmful decoration
        let ns = NAMESPACES[t.below(3)];
        let f = REL_FILES[t.below(REL_FILES.len())];
        let f = match t.draw(8) {
            1 => format!("./{f}"),
            2 => format!("sub/../{f}"),
            3 => format!("../{f}"),
            4 => f.trim_end_matches(".ttl").trim_end_matches(".nt").to_string(),
            _ => f.to_string(),
        };
        let frag = if t.chance(1, 8) { "#it" } else { "" };
        return format!("{ns}{f}{frag}");
    }
    let ns = if t.chance(1, 8) {
        ["http://unknown.org/", "http://ex.org", "http://ex.org/n", "urn:x:y", "file:///"][t.below(5)].to_string()
    } else {
        NAMESPACES[t.below(NAMESPACES.len())].to_string()
    };
    let mut rem = String::new();
    match t.draw(8) {
        0 => {
            // absolute path injection: an empty segment makes the remainder start with '/'
            rem.push('/');
            rem.push_str(base.to_str().unwrap_or("/"));
            rem.push('/');
            rem.push_str(OUTSIDE_FILES[t.below(OUTSIDE_FILES.len())]);
        }
        1 => {
            // a very long path
            for _ in 0..t.range(30, 300) {
                rem.push_str(["a/", "../", "./", "deep/"][t.below(4)]);
            }
            rem.push_str("f.ttl");
        }
        _ => {
            let n = t.range(0, 6);
            for i in 0..n {
                if i > 0 {
                    rem.push('/');
                }
                rem.push_str(SEGMENTS[t.below(SEGMENTS.len())]);
            }
        }
    }
    let mut iri = format!("{ns}{rem}");
    if t.chance(1, 6) {
        iri.push_str(["#", "#frag", "#../../x", "#/etc"][t.below(4)]);
    }
    iri
}

fn file_content(ctx: &mut Ctx, rel: &str, tag: usize, base: &Path) -> Vec<u8> {
    let links: Vec<String> = (0..ctx.tape.range(0, 3)).map(|_| hostile_iri(ctx, base)).collect();
    let ok_links: Vec<&String> = links.iter().filter(|l| Iri::new(l.as_str()).is_ok() && !l.contains(['<', '>', '"', ' ', '\\', '^', '`', '{', '}', '|'])).collect();
    let ext = rel.rsplit('.').next().unwrap_or("");
    let mut s = String::new();
    match ext {
        "nt" => {
            for l in &ok_links {
                s.push_str(&format!("<http://ex.org/self> <http://ex.org/p> <{l}> .\n"));
            }
            s.push_str(&format!("<http://ex.org/self> <http://ex.org/tag> \"FILE-{tag}\" .\n"));
        }
        "jsonld" => {
            let ctxt = if ctx.tape.chance(1, 3) && !ok_links.is_empty() {
                format!("\"@context\": \"{}\", ", ok_links[0])
            } else {
                String::new()
            };
            let ls: Vec<String> = ok_links.iter().map(|l| format!("{{\"@id\": \"{l}\"}}")).collect();
            s.push_str(&format!("{{{ctxt}\"@id\": \"\", \"http://ex.org/p\": [{}], \"http://ex.org/tag\": \"FILE-{tag}\"}}", ls.join(",")));
        }
        "rdf" => {
            s.push_str("<rdf:RDF xmlns:rdf=\"http://www.w3.org/1999/02/22-rdf-syntax-ns#\" xmlns:e=\"http://ex.org/\"><rdf:Description rdf:about=\"\">");
            for l in &ok_links {
                s.push_str(&format!("<e:p rdf:resource=\"{}\"/>", l.replace('&', "&amp;")));
            }
            s.push_str(&format!("<e:tag>FILE-{tag}</e:tag></rdf:Description></rdf:RDF>"));
        }
        _ => {
            // turtle (also for files without extension: only reachable through conneg retry)
            for l in &ok_links {
                s.push_str(&format!("<> <http://ex.org/p> <{l}> .\n"));
            }
            if ctx.tape.chance(1, 3) {
                s.push_str(&format!("<> <http://ex.org/p> <{}> .\n", ["../secret.ttl", "../../outside/secret.ttl", "/secret.ttl", "//ex.org/ns/a.ttl", "sub/../../secret.ttl", "b.nt"][ctx.tape.below(6)]));
            }
            s.push_str(&format!("<> <http://ex.org/tag> \"FILE-{tag}\" .\n"));
        }
    }
    s.into_bytes()
}

fn materialize_static_tree(base: &Path) {
    // real directories (LocalLoader::new checks is_dir) and, for "real fs" runs, real files
    for d in DIRS {
        let _ = std::fs::create_dir_all(base.join(d));
    }
    let _ = std::fs::create_dir_all(base.join("outside"));
    let mut tag = 0;
    for d in DIRS {
        for f in REL_FILES {
            let p = base.join(d).join(f);
            if let Some(parent) = p.parent() {
                let _ = std::fs::create_dir_all(parent);
            }
            if !p.is_dir() {
                let _ = std::fs::write(&p, format!("<> <http://ex.org/tag> \"REAL-{tag}\" .\n<> <http://ex.org/p> <../secret.ttl>, <http://ex.org/ns/../secret.ttl> .\n"));
            }
            tag += 1;
        }
    }
    for f in OUTSIDE_FILES {
        let p = base.join(f);
        if let Some(parent) = p.parent() {
            let _ = std::fs::create_dir_all(parent);
        }
        let _ = std::fs::write(&p, format!("<> <http://ex.org/tag> \"CANARY-{tag}\" .\n"));
        tag += 1;
    }
}

fn run_c19(ctx: &mut Ctx) -> Verdict {
    let base = simcore::driver::process_scratch().join("c19");
    static ONCE: std::sync::Once = std::sync::Once::new();
    ONCE.call_once(|| materialize_static_tree(&base));

    // ---- configuration
    let n_cfg = ctx.tape.range(1, 3);
    let mut config: Vec<(String, PathBuf)> = vec![];
    for _ in 0..n_cfg {
        let ns = NAMESPACES[ctx.tape.below(NAMESPACES.len())].to_string();
        let dir = base.join(DIRS[ctx.tape.below(DIRS.len())]);
        config.push((ns, dir));
    }
    let real_fs = ctx.tape.chance(1, 8);
    ctx.probe(if real_fs { "real_filesystem_run" } else { "simulated_filesystem_run" });
    ctx.sig(&format!("cfg{n_cfg}/real={real_fs}"));

    // ---- disk content
    let mut disk = Disk {
        config: config.clone(),
        real_fs,
        ..Default::default()
    };
    if !real_fs {
        let mut tag = 0;
        for d in DIRS {
            for f in REL_FILES {
                let p = normalize(&base.join(d).join(f));
                let c = file_content(ctx, f, tag, &base);
                disk.files.insert(p, c);
                tag += 1;
            }
        }
        for f in OUTSIDE_FILES {
            disk.files.insert(normalize(&base.join(f)), format!("<> <http://ex.org/tag> \"CANARY-{tag}\" .\n").into_bytes());
            tag += 1;
        }
    }
    // ---- fault plan: a few read attempts get a fault
    let n_faults = ctx.tape.below(4);
    for _ in 0..n_faults {
        let at = ctx.tape.below(12);
        let f = match ctx.tape.draw(7) {
            0 => continue,
            1 => Fault::NotFound,
            2 => Fault::PermissionDenied,
            3 => Fault::Eio,
            4 => Fault::IsADirectory,
            5 => Fault::Truncate(ctx.tape.below(60)),
            _ => Fault::Corrupt(ctx.tape.below(200)),
        };
        disk.faults.insert(at, f);
    }
    let disk = Arc::new(Mutex::new(disk));

    let caches: Vec<_> = config
        .iter()
        .map(|(ns, d)| (Iri::new(sophia_api::MownStr::from(ns.clone())).expect("namespace"), d.clone()))
        .collect();
    let inner = LocalLoader::new(caches).map_err(|e| Violation::new("harness_config", format!("LocalLoader::new failed: {e}")))?;
    let spy = Arc::new(Spy {
        inner,
        disk: disk.clone(),
    });
    {
        let d2 = disk.clone();
        set_fs_interposer(Some(Box::new(move |p: &Path| d2.lock().unwrap().on_read(p))));
    }
    struct Uninstall;
    impl Drop for Uninstall {
        fn drop(&mut self) {
            set_fs_interposer(None);
        }
    }
    let _guard = Uninstall;

    // ---- workload
    let n_ops = ctx.tape.range(1, 6);
    for step in 0..n_ops {
        let iri_s = hostile_iri(ctx, &base);
        let Ok(iri) = Iri::new(iri_s.clone()) else {
            ctx.probe("generated_iri_invalid_skipped");
            continue;
        };
        ctx.ops += 1;
        let follow = ctx.tape.flag();
        ev!(ctx, "op {step}: {} <{}>", if follow { "get_resource+follow" } else { "get" }, iri_s.replace(base.to_str().unwrap_or("\u{0}"), "$BASE"));
        ctx.sample(|| format!("config {config:?}; op {step}: {} <{iri_s}>", if follow { "get_resource+follow" } else { "get" }));
        {
            // shape of the IRI, for the distinctness measure
            let mut bits = 0u64;
            for (i, pat) in ["..", "/./", "//", "%2", "\\", "#", "?", ".ttl", ".nt", ".jsonld", ".rdf"].iter().enumerate() {
                if iri_s.get(8..).is_some_and(|rest| rest.contains(pat)) {
                    bits |= 1 << i;
                }
            }
            if config.iter().any(|(ns, _)| iri_s.starts_with(ns.as_str())) {
                bits |= 1 << 12;
            }
            bits |= (iri_s.matches('/').count().min(15) as u64) << 13;
            ctx.sig_u(bits);
        }
        if iri_s.contains("..") {
            ctx.probe("iri_with_dot_dot");
        }
        if iri_s.contains("//", ) && iri_s.matches("//").count() > 1 {
            ctx.probe("iri_with_empty_segment");
        }
        if iri_s.contains('%') {
            ctx.probe("iri_with_percent_encoding");
        }
        if !follow {
            ctx.sig("get");
            match spy.get(iri.as_ref()) {
                Ok(_) => ctx.probe("get_ok"),
                Err(LoaderError::NotFound(_)) => ctx.probe("get_not_found"),
                Err(LoaderError::UnsupportedIri(..)) => ctx.probe("get_unsupported_iri"),
                Err(_) => ctx.probe("get_other_error"),
            }
        } else {
            ctx.sig("follow");
            let p = Iri::new_unchecked("http://ex.org/p");
            // A panic inside a parser fed with hostile or corrupted content is a matter for C08
            // (see known_findings.json), not for path confinement: it ends this operation only.
            let mut probes: Vec<&'static str> = vec![];
            let outcome = std::panic::catch_unwind(std::panic::AssertUnwindSafe(|| {
                match spy.get_resource::<_, G>(iri.as_ref()) {
                    Err(_) => probes.push("resource_load_error"),
                    Ok(res) => {
                        probes.push("resource_loaded");
                        // follow whatever the loaded data says, up to 4 hops
                        let mut frontier: Vec<Resource<G, Spy>> = vec![res];
                        for _hop in 0..4 {
                            let mut next = vec![];
                            for r in &frontier {
                                for n in r.get_all_resources(p).take(4) {
                                    match n {
                                        Ok(nr) => {
                                            probes.push("link_followed");
                                            next.push(nr);
                                        }
                                        Err(_) => probes.push("link_not_loadable"),
                                    }
                                }
                            }
                            if next.is_empty() {
                                break;
                            }
                            next.truncate(3);
                            frontier = next;
                        }
                    }
                }
            }));
            for pr in probes {
                ctx.probe(pr);
            }
            if outcome.is_err() {
                ctx.probe("parser_panicked_on_hostile_content_(C08_matter)");
                let mut d = disk.lock().unwrap_or_else(|e| e.into_inner());
                d.current_iri.clear();
            }
        }
        let mut d = disk.lock().unwrap_or_else(|e| e.into_inner());
        for f in std::mem::take(&mut d.faults_fired) {
            ctx.fault(f);
            ctx.fault_in_op = true;
        }
        if let Some(v) = d.violation.take() {
            return Err(v);
        }
    }
    let d = disk.lock().unwrap();
    ctx.probe_n("fs_read_attempts", d.attempts as u64);
    ctx.events += d.attempts as u64;
    let bs = base.to_str().unwrap_or("\u{0}").to_string();
    for (iri, raw, _) in d.reads.iter().take(50) {
        ctx.ev_raw(b'P', raw.to_string_lossy().replace(&bs, "$BASE").as_bytes());
        ctx.ev_raw(b'I', iri.replace(&bs, "$BASE").as_bytes());
    }
    ensure!(d.current_iri.is_empty(), "harness_state", "unbalanced get() nesting");
    Ok(())
}

fn warmup() {
    let mut ctx = Ctx::new(simcore::Tape::record(3), false);
    for _ in 0..20 {
        let _ = run_c19(&mut ctx);
    }
}

fn main() {
    let sc = vec![Scenario {
        property: "C19",
        tag: 0xC19,
        run: run_c19,
        quick_runs: 40_000,
        thorough_runs: 1_500_000,
        level: "exploration",
        rule: "one run = one namespace->directory configuration (1-3 pairs, nested/overlapping) over a simulated disk (16 files under each of 4 roots, 5 canary files outside, hostile per-run contents) with 0-3 injected read faults, and 1-6 operations: get(iri) or get_resource(iri) followed by up to 4 hops of links found in the loaded data; the invariant is checked at EVERY read attempt: the lexically normalised path must lie inside a directory mapped to a namespace that prefixes the IRI being fetched; distinct = distinct (configuration size, fs mode, operation kinds, fault kinds) signatures; non-trivial = a fault fired or >= 4 operations and >= 2 probes",
        real_components: &[
            "sophia_resource::LocalLoader (get, conneg retry), Loader default methods (get_graph, get_resource, get_resource_from)",
            "sophia_resource::Resource link following (get_all_resources, get_neighbour)",
            "Turtle / N-Triples / JSON-LD (with context loading through the loader) / RDF/XML parsers",
            "std::fs::read on tmpfs in 1/8 of the runs",
        ],
        stub_components: &[
            "file-system read interposer (guarded hook loader::verif, answers from a simulated tree and injects NotFound/EACCES/EIO/EISDIR/truncated/corrupted content)",
            "Spy loader (records the IRI being fetched, delegates get() to the real LocalLoader)",
            "hostile IRI / file content generator",
        ],
        assumptions: &[
            "no symlinks in the tree: lexical normalisation of '.', '..' and root components decides what a path denotes",
            "IRIs are built with the validating constructor (the property quantifies over valid IRIs)",
        ],
        panic_is_violation: true,
        death_is_violation: true,
        shrink_budget: 1500,
        run_timeout_s: 60,
        thorough_extra: None,
        warmup: Some(warmup),
        enumerated: None,
    }];
    simcore::main_with(&sc);
}
