//! C10 — clones of in-memory stores are independent and memory-safe.
//!
//! Histories over a pool of live stores: insert/remove/query interleaved with clone, drop (of
//! the original or of the clone), mem::swap, mem::take, moves through Box, and insertion bursts
//! that cross table-growth thresholds. The process allocator is adversarial but legal while a
//! run is active: freed blocks are filled with 0xDF and quarantined (never reused during the
//! run), realloc always moves. Reading released memory therefore reads 0xDF.. deterministically.

use crate::{Model, TI};
use simcore::ctx::{Ctx, Verdict, Violation};
use simcore::driver::Scenario;
use simcore::r#gen::norm_quad;
use simcore::model::*;
use simcore::{ensure, ev};
use sophia_api::dataset::{Dataset, MutableDataset};
use sophia_api::graph::{Graph, MutableGraph};
use sophia_inmem::dataset::{GenericFastDataset, GenericLightDataset};
use sophia_inmem::graph::{GenericFastGraph, GenericLightGraph};
use sophia_inmem::index::{Index, SimpleTermIndex, TermIndex};
use std::alloc::{GlobalAlloc, Layout, System};
use std::cell::Cell;

// ---------------------------------------------------------------------------------------------
// the adversarial allocator

pub struct SimAlloc;

thread_local! {
    static ACTIVE: Cell<bool> = const { Cell::new(false) };
    /// raw pointer to the quarantine of the current run (allocated with System)
    static QUAR: Cell<*mut Quarantine> = const { Cell::new(std::ptr::null_mut()) };
}

struct Quarantine {
    blocks: *mut (usize, usize, usize), // (ptr, size, align)
    len: usize,
    cap: usize,
    bytes: usize,
    reallocs_moved: usize,
}

const POISON: u8 = 0xDF;

unsafe impl GlobalAlloc for SimAlloc {
    unsafe fn alloc(&self, layout: Layout) -> *mut u8 {
        unsafe { System.alloc(layout) }
    }

    unsafe fn alloc_zeroed(&self, layout: Layout) -> *mut u8 {
        unsafe { System.alloc_zeroed(layout) }
    }

    unsafe fn dealloc(&self, ptr: *mut u8, layout: Layout) {
        let active = ACTIVE.try_with(Cell::get).unwrap_or(false);
        if !active || cfg!(miri) {
            unsafe { System.dealloc(ptr, layout) };
            return;
        }
        unsafe {
            std::ptr::write_bytes(ptr, POISON, layout.size());
            let q = QUAR.with(Cell::get);
            if q.is_null() {
                System.dealloc(ptr, layout);
                return;
            }
            let q = &mut *q;
            if q.len == q.cap {
                let new_cap = (q.cap * 2).max(1024);
                let new_layout = Layout::array::<(usize, usize, usize)>(new_cap).unwrap();
                let nb = System.alloc(new_layout).cast::<(usize, usize, usize)>();
                if !q.blocks.is_null() {
                    std::ptr::copy_nonoverlapping(q.blocks, nb, q.len);
                    System.dealloc(
                        q.blocks.cast(),
                        Layout::array::<(usize, usize, usize)>(q.cap).unwrap(),
                    );
                }
                q.blocks = nb;
                q.cap = new_cap;
            }
            *q.blocks.add(q.len) = (ptr as usize, layout.size(), layout.align());
            q.len += 1;
            q.bytes += layout.size();
        }
    }

    unsafe fn realloc(&self, ptr: *mut u8, layout: Layout, new_size: usize) -> *mut u8 {
        let active = ACTIVE.try_with(Cell::get).unwrap_or(false);
        if !active || cfg!(miri) {
            return unsafe { System.realloc(ptr, layout, new_size) };
        }
        // always move: every table growth relocates its data
        unsafe {
            let new_layout = Layout::from_size_align_unchecked(new_size, layout.align());
            let np = System.alloc(new_layout);
            if np.is_null() {
                return np;
            }
            std::ptr::copy_nonoverlapping(ptr, np, layout.size().min(new_size));
            let q = QUAR.with(Cell::get);
            if !q.is_null() {
                (*q).reallocs_moved += 1;
            }
            self.dealloc(ptr, layout);
            np
        }
    }
}

/// Activates the adversarial behaviour for the current thread until dropped; on drop the
/// quarantined blocks are really freed.
pub struct AllocRun;

impl AllocRun {
    pub fn begin() -> Self {
        unsafe {
            let layout = Layout::new::<Quarantine>();
            let q = System.alloc(layout).cast::<Quarantine>();
            q.write(Quarantine {
                blocks: std::ptr::null_mut(),
                len: 0,
                cap: 0,
                bytes: 0,
                reallocs_moved: 0,
            });
            QUAR.with(|c| c.set(q));
        }
        ACTIVE.with(|a| a.set(true));
        AllocRun
    }

    /// (blocks quarantined, bytes, reallocs that moved)
    pub fn stats(&self) -> (usize, usize, usize) {
        let q = QUAR.with(Cell::get);
        if q.is_null() {
            (0, 0, 0)
        } else {
            unsafe { ((*q).len, (*q).bytes, (*q).reallocs_moved) }
        }
    }
}

impl Drop for AllocRun {
    fn drop(&mut self) {
        ACTIVE.with(|a| a.set(false));
        let q = QUAR.with(|c| c.replace(std::ptr::null_mut()));
        if q.is_null() {
            return;
        }
        unsafe {
            let qq = &mut *q;
            for i in 0..qq.len {
                let (p, size, align) = *qq.blocks.add(i);
                System.dealloc(p as *mut u8, Layout::from_size_align_unchecked(size, align));
            }
            if !qq.blocks.is_null() {
                System.dealloc(
                    qq.blocks.cast(),
                    Layout::array::<(usize, usize, usize)>(qq.cap).unwrap(),
                );
            }
            System.dealloc(q.cast(), Layout::new::<Quarantine>());
        }
    }
}

// ---------------------------------------------------------------------------------------------
// the pool of live stores

#[derive(Clone)]
enum Store {
    FastD(sophia_inmem::dataset::FastDataset),
    LightD(sophia_inmem::dataset::LightDataset),
    SmallFastD(sophia_inmem::dataset::small::FastDataset),
    SmallLightD(sophia_inmem::dataset::small::LightDataset),
    TinyFastD(GenericFastDataset<TI<40>>),
    TinyLightD(GenericLightDataset<TI<40>>),
    FastG(sophia_inmem::graph::FastGraph),
    LightG(sophia_inmem::graph::LightGraph),
    SmallFastG(sophia_inmem::graph::small::FastGraph),
    SmallLightG(GenericLightGraph<SimpleTermIndex<u16>>),
    TinyFastG(GenericFastGraph<TI<40>>),
    /// a bare term index
    Index32(SimpleTermIndex<u32>),
    Index16(SimpleTermIndex<u16>),
}

impl Store {
    fn new(kind: usize) -> (Store, Model) {
        let big = Some(u32::MAX as usize);
        let small = Some(u16::MAX as usize);
        match kind {
            0 => (Store::FastD(Default::default()), Model::new(true, big)),
            1 => (Store::LightD(Default::default()), Model::new(true, big)),
            2 => (Store::SmallFastD(Default::default()), Model::new(true, small)),
            3 => (Store::SmallLightD(Default::default()), Model::new(true, small)),
            4 => (Store::TinyFastD(Default::default()), Model::new(true, Some(40))),
            5 => (Store::TinyLightD(Default::default()), Model::new(true, Some(40))),
            6 => (Store::FastG(Default::default()), Model::new(true, big)),
            7 => (Store::LightG(Default::default()), Model::new(true, big)),
            8 => (Store::SmallFastG(Default::default()), Model::new(true, small)),
            9 => (Store::SmallLightG(Default::default()), Model::new(true, small)),
            10 => (Store::TinyFastG(Default::default()), Model::new(true, Some(40))),
            11 => (Store::Index32(Default::default()), Model::new(true, big)),
            _ => (Store::Index16(Default::default()), Model::new(true, small)),
        }
    }
    const KINDS: usize = 13;

    fn label(&self) -> &'static str {
        match self {
            Store::FastD(_) => "FastDataset",
            Store::LightD(_) => "LightDataset",
            Store::SmallFastD(_) => "small::FastDataset",
            Store::SmallLightD(_) => "small::LightDataset",
            Store::TinyFastD(_) => "FastDataset<TinyIdx<40>>",
            Store::TinyLightD(_) => "LightDataset<TinyIdx<40>>",
            Store::FastG(_) => "FastGraph",
            Store::LightG(_) => "LightGraph",
            Store::SmallFastG(_) => "small::FastGraph",
            Store::SmallLightG(_) => "small::LightGraph",
            Store::TinyFastG(_) => "FastGraph<TinyIdx<40>>",
            Store::Index32(_) => "SimpleTermIndex<u32>",
            Store::Index16(_) => "SimpleTermIndex<u16>",
        }
    }

    fn is_graph(&self) -> bool {
        matches!(
            self,
            Store::FastG(_) | Store::LightG(_) | Store::SmallFastG(_) | Store::SmallLightG(_) | Store::TinyFastG(_)
        )
    }
    fn is_index(&self) -> bool {
        matches!(self, Store::Index32(_) | Store::Index16(_))
    }
}

macro_rules! with_dataset {
    ($store:expr, $d:ident => $body:expr, graph $g:ident => $gbody:expr, index $i:ident => $ibody:expr) => {
        match $store {
            Store::FastD($d) => $body,
            Store::LightD($d) => $body,
            Store::SmallFastD($d) => $body,
            Store::SmallLightD($d) => $body,
            Store::TinyFastD($d) => $body,
            Store::TinyLightD($d) => $body,
            Store::FastG($g) => $gbody,
            Store::LightG($g) => $gbody,
            Store::SmallFastG($g) => $gbody,
            Store::SmallLightG($g) => $gbody,
            Store::TinyFastG($g) => $gbody,
            Store::Index32($i) => $ibody,
            Store::Index16($i) => $ibody,
        }
    };
}

fn audit_index<I: Index>(ti: &SimpleTermIndex<I>) -> Result<(), String> {
    ti.verif_audit()
}

/// Enumerate a store completely and compare with its model; audit its term index.
fn check_store(tag: &str, s: &Store, m: &Model, when: &str) -> Verdict {
    let label = s.label();
    let got: Vec<MQuad> = with_dataset!(s,
        d => d.quads().map(|q| norm_quad(&quad_from(q.unwrap()))).collect(),
        graph g => g.triples().map(|t| norm_quad(&(triple_from(t.unwrap()), None))).collect(),
        index i => {
            // model.quads holds one pseudo-quad per indexed term: (t, t, t)
            (0..i.len()).map(|k| {
                let t = norm_quad(&([MTerm::from_term(i.get_term(idx_from(i, k))), MTerm::iri("x:i"), MTerm::iri("x:i")], None));
                t
            }).collect()
        }
    );
    let mut got = got;
    got.sort();
    let want = m.sorted();
    ensure!(
        got == want,
        format!("clone_independence/{label}"),
        "{tag} ({label}) after {when}: holds {} statements, its reference holds {}\n  store: {}\n  reference: {}",
        got.len(),
        want.len(),
        got.iter().take(6).map(fmt_quad).collect::<Vec<_>>().join(" | "),
        want.iter().take(6).map(fmt_quad).collect::<Vec<_>>().join(" | ")
    );
    let audit: Result<(), String> = match s {
        Store::FastD(d) => audit_index(d.verif_terms()),
        Store::LightD(d) => audit_index(d.verif_terms()),
        Store::SmallFastD(d) => audit_index(d.verif_terms()),
        Store::SmallLightD(d) => audit_index(d.verif_terms()),
        Store::TinyFastD(d) => audit_index(d.verif_terms()),
        Store::TinyLightD(d) => audit_index(d.verif_terms()),
        Store::FastG(g) => audit_index(g.verif_terms()),
        Store::LightG(g) => audit_index(g.verif_terms()),
        Store::SmallFastG(g) => audit_index(g.verif_terms()),
        Store::SmallLightG(g) => audit_index(g.verif_terms()),
        Store::TinyFastG(g) => audit_index(g.verif_terms()),
        Store::Index32(i) => audit_index(i),
        Store::Index16(i) => audit_index(i),
    };
    if let Err(e) = audit {
        return Err(Violation::new(
            format!("index_audit/{label}"),
            format!("{tag} ({label}) after {when}: {e}"),
        ));
    }
    Ok(())
}

/// `get_term` is a safe function: called with an index this store never issued (taken from a
/// bigger clone, kept across a mem::take, or simply out of range) it may panic, it must not
/// read out of bounds. The panic is caught; an abort (debug precondition check of an unchecked
/// access) or a poisoned read shows up as process death / garbage.
fn probe_foreign_indexes<I: Index>(ti: &SimpleTermIndex<I>, extra: usize) -> u32 {
    let len = ti.len();
    let mut panics = 0;
    for k in [len, len + 1, len + extra, I::MAX.into_usize().saturating_sub(1)] {
        if k >= I::MAX.into_usize() {
            continue;
        }
        let idx = I::from_usize(k);
        let r = std::panic::catch_unwind(std::panic::AssertUnwindSafe(|| {
            let t = ti.get_term(idx);
            // touch the term the way a caller would
            let _ = MTerm::from_term(t);
        }));
        if r.is_err() {
            panics += 1;
        }
    }
    panics
}

fn idx_from<I: Index>(_ti: &SimpleTermIndex<I>, k: usize) -> I {
    I::from_usize(k)
}

fn pseudo(t: &MTerm) -> MQuad {
    ([t.clone(), MTerm::iri("x:i"), MTerm::iri("x:i")], None)
}

fn store_insert(s: &mut Store, m: &mut Model, q: &MQuad) -> Verdict {
    let label = s.label();
    let sq = quad_to_simple(q);
    let res: Result<bool, String> = with_dataset!(s,
        d => d.insert(&sq.0[0], &sq.0[1], &sq.0[2], sq.1.as_ref()).map_err(|e| e.to_string()),
        graph g => g.insert(&sq.0[0], &sq.0[1], &sq.0[2]).map_err(|e| e.to_string()),
        index i => i.ensure_index(&sq.0[0]).map(|_| true).map_err(|e| e.to_string())
    );
    let before = m.clone();
    let want = if s.is_index() {
        // only the subject term goes to the index
        let t = simcore::r#gen::norm_term(&q.0[0]);
        let present = m.quads.contains(&pseudo(&t));
        if present {
            Ok(false)
        } else if m.quads.len() >= m.index.as_ref().map_or(usize::MAX, |i| i.0) {
            Err(())
        } else {
            m.quads.push(pseudo(&t));
            Ok(true)
        }
    } else if s.is_graph() {
        m.insert(&(q.0.clone(), None))
    } else {
        m.insert(q)
    };
    match (res, want) {
        (Ok(f), Ok(w)) => {
            ensure!(
                s.is_index() || f == w,
                format!("insert_flag/{label}"),
                "{label}: insert returned {f}, reference {w}"
            );
        }
        (Err(_), Err(())) => {
            let idx = m.index.clone();
            *m = before;
            m.index = idx;
        }
        (a, b) => {
            return Err(Violation::new(
                format!("insert_outcome/{label}"),
                format!("{label}: insert gave {a:?}, reference {b:?}"),
            ));
        }
    }
    Ok(())
}

fn store_remove(s: &mut Store, m: &mut Model, q: &MQuad) -> Verdict {
    let label = s.label();
    let sq = quad_to_simple(q);
    if s.is_index() {
        return Ok(());
    }
    let got: bool = with_dataset!(s,
        d => d.remove(&sq.0[0], &sq.0[1], &sq.0[2], sq.1.as_ref()).map_err(|e| e.to_string()),
        graph g => g.remove(&sq.0[0], &sq.0[1], &sq.0[2]).map_err(|e| e.to_string()),
        index _i => Ok(false)
    )
    .map_err(|e| Violation::new(format!("remove_error/{label}"), e))?;
    let want = if s.is_graph() {
        m.remove(&(q.0.clone(), None))
    } else {
        m.remove(q)
    };
    ensure!(
        got == want,
        format!("remove_flag/{label}"),
        "{label}: remove returned {got}, reference {want}"
    );
    Ok(())
}

fn default_of(s: &Store) -> Store {
    match s {
        Store::FastD(_) => Store::FastD(Default::default()),
        Store::LightD(_) => Store::LightD(Default::default()),
        Store::SmallFastD(_) => Store::SmallFastD(Default::default()),
        Store::SmallLightD(_) => Store::SmallLightD(Default::default()),
        Store::TinyFastD(_) => Store::TinyFastD(Default::default()),
        Store::TinyLightD(_) => Store::TinyLightD(Default::default()),
        Store::FastG(_) => Store::FastG(Default::default()),
        Store::LightG(_) => Store::LightG(Default::default()),
        Store::SmallFastG(_) => Store::SmallFastG(Default::default()),
        Store::SmallLightG(_) => Store::SmallLightG(Default::default()),
        Store::TinyFastG(_) => Store::TinyFastG(Default::default()),
        Store::Index32(_) => Store::Index32(Default::default()),
        Store::Index16(_) => Store::Index16(Default::default()),
    }
}

pub fn run_c10(ctx: &mut Ctx) -> Verdict {
    let alloc = AllocRun::begin();
    let r = run_c10_inner(ctx, &alloc);
    let (blocks, bytes, moved) = alloc.stats();
    ctx.probe_n("alloc_blocks_poisoned_and_quarantined", blocks as u64);
    ctx.probe_n("alloc_bytes_quarantined", bytes as u64);
    ctx.probe_n("alloc_reallocs_forced_to_move", moved as u64);
    if blocks > 0 {
        ctx.fault_n("free_poisoned", blocks as u64);
    }
    if moved > 0 {
        ctx.fault_n("realloc_moved", moved as u64);
    }
    drop(alloc);
    r
}

/// The same histories without the allocator seam (for Miri, which has its own).
pub fn run_c10_plain(ctx: &mut Ctx) -> Verdict {
    run_c10_body(ctx)
}

fn run_c10_inner(ctx: &mut Ctx, _alloc: &AllocRun) -> Verdict {
    run_c10_body(ctx)
}

fn run_c10_body(ctx: &mut Ctx) -> Verdict {
    let (a, p, pool_terms) = crate::make_pool(ctx);
    let n_ops = ctx.tape.range(2, 40);
    // the pool: (store, its own model, a tag for messages)
    let mut pool: Vec<(Store, Model, String)> = vec![];
    let kind = ctx.tape.below(Store::KINDS);
    let (s0, m0) = Store::new(kind);
    ctx.sig(s0.label());
    pool.push((s0, m0, "s0".into()));
    let mut next_tag = 1;
    let mut fresh_term = 0u32;
    for step in 0..n_ops {
        if pool.is_empty() {
            let (s, m) = Store::new(ctx.tape.below(Store::KINDS));
            pool.push((s, m, format!("s{next_tag}")));
            next_tag += 1;
        }
        let which = ctx.tape.below(pool.len());
        let opk = ctx.tape.draw(20);
        let opname: &'static str;
        match opk {
            0..=4 => {
                opname = "insert";
                let q = crate::draw_quad_pub(ctx, &a, &p, &pool_terms);
                let (s, m, _) = &mut pool[which];
                store_insert(s, m, &q)?;
            }
            5 => {
                opname = "remove";
                let q = crate::draw_quad_pub(ctx, &a, &p, &pool_terms);
                let (s, m, _) = &mut pool[which];
                store_remove(s, m, &q)?;
            }
            6 | 7 => {
                opname = "clone";
                if pool.len() < 5 {
                    let (s, m, t) = &pool[which];
                    let c = (s.clone(), m.clone(), format!("s{next_tag}=clone({t})"));
                    next_tag += 1;
                    pool.push(c);
                    ctx.fault_in_op = true;
                }
            }
            8 | 9 => {
                opname = "drop";
                let (s, _, t) = pool.remove(which);
                ev!(ctx, "drop {t}");
                drop(s);
                ctx.fault_in_op = true;
            }
            10 => {
                opname = "swap";
                let other = ctx.tape.below(pool.len());
                if other != which {
                    let (lo, hi) = (which.min(other), which.max(other));
                    let (x, y) = pool.split_at_mut(hi);
                    std::mem::swap(&mut x[lo].0, &mut y[0].0);
                    std::mem::swap(&mut x[lo].1, &mut y[0].1);
                }
            }
            11 => {
                opname = "take";
                // mem::take-like: the old value moves out (into a new slot), a default stays
                let d = default_of(&pool[which].0);
                let old = std::mem::replace(&mut pool[which].0, d);
                let (cap, set) = (pool[which].1.index.as_ref().map(|i| i.0), pool[which].1.set);
                let old_model = std::mem::replace(&mut pool[which].1, Model::new(set, cap));
                if pool.len() < 5 {
                    pool.push((old, old_model, format!("s{next_tag}=taken")));
                    next_tag += 1;
                } else {
                    drop(old);
                }
            }
            12 => {
                opname = "move_through_box";
                let d = default_of(&pool[which].0);
                let old = std::mem::replace(&mut pool[which].0, d);
                let boxed = Box::new(old);
                let v = vec![boxed];
                let back = *v.into_iter().next().unwrap();
                pool[which].0 = back;
            }
            13 | 14 => {
                opname = "growth_burst";
                // enough fresh terms to cross HashMap / Vec / BTreeSet growth thresholds
                let n = [3usize, 9, 17, 33, 70][ctx.tape.below(5)];
                for _ in 0..n {
                    fresh_term += 1;
                    let q: MQuad = (
                        [
                            MTerm::Iri(format!("http://burst.example/{fresh_term}")),
                            MTerm::iri("http://burst.example/p"),
                            MTerm::lit(&format!("v{fresh_term}"), XSD_STRING),
                        ],
                        None,
                    );
                    let (s, m, _) = &mut pool[which];
                    store_insert(s, m, &q)?;
                }
            }
            16 => {
                opname = "clone_from";
                // Clone::clone_from between two stores of the same kind: typically an older clone
                // refreshed from an original that has grown since (or the other way round)
                let other = ctx.tape.below(pool.len());
                if other != which {
                    let (lo, hi) = (which.min(other), which.max(other));
                    let (x, y) = pool.split_at_mut(hi);
                    let (dst, src) = if which < other { (&mut x[lo], &y[0]) } else { (&mut y[0], &x[lo]) };
                    let same_kind = std::mem::discriminant(&dst.0) == std::mem::discriminant(&src.0);
                    if same_kind {
                        match (&mut dst.0, &src.0) {
                            (Store::FastD(d), Store::FastD(s)) => d.clone_from(s),
                            (Store::LightD(d), Store::LightD(s)) => d.clone_from(s),
                            (Store::SmallFastD(d), Store::SmallFastD(s)) => d.clone_from(s),
                            (Store::SmallLightD(d), Store::SmallLightD(s)) => d.clone_from(s),
                            (Store::TinyFastD(d), Store::TinyFastD(s)) => d.clone_from(s),
                            (Store::TinyLightD(d), Store::TinyLightD(s)) => d.clone_from(s),
                            (Store::FastG(d), Store::FastG(s)) => d.clone_from(s),
                            (Store::LightG(d), Store::LightG(s)) => d.clone_from(s),
                            (Store::SmallFastG(d), Store::SmallFastG(s)) => d.clone_from(s),
                            (Store::SmallLightG(d), Store::SmallLightG(s)) => d.clone_from(s),
                            (Store::TinyFastG(d), Store::TinyFastG(s)) => d.clone_from(s),
                            (Store::Index32(d), Store::Index32(s)) => d.clone_from(s),
                            (Store::Index16(d), Store::Index16(s)) => d.clone_from(s),
                            _ => {}
                        }
                        dst.1 = src.1.clone();
                        dst.2 = format!("{}<-clone_from({})", dst.2.split('<').next().unwrap_or("s"), src.2.split('<').next().unwrap_or("s"));
                        ctx.fault_in_op = true;
                        ctx.probe("clone_from_same_kind");
                    }
                }
            }
            15 => {
                opname = "get_term_with_foreign_index";
                simcore::driver::set_death_note("C10: get_term called with an index this store never issued");
                let extra = ctx.tape.range(2, 40);
                let (s, _, _) = &pool[which];
                let panics = match s {
                    Store::FastD(d) => probe_foreign_indexes(d.verif_terms(), extra),
                    Store::LightD(d) => probe_foreign_indexes(d.verif_terms(), extra),
                    Store::SmallFastD(d) => probe_foreign_indexes(d.verif_terms(), extra),
                    Store::SmallLightD(d) => probe_foreign_indexes(d.verif_terms(), extra),
                    Store::TinyFastD(d) => probe_foreign_indexes(d.verif_terms(), extra),
                    Store::TinyLightD(d) => probe_foreign_indexes(d.verif_terms(), extra),
                    Store::FastG(g) => probe_foreign_indexes(g.verif_terms(), extra),
                    Store::LightG(g) => probe_foreign_indexes(g.verif_terms(), extra),
                    Store::SmallFastG(g) => probe_foreign_indexes(g.verif_terms(), extra),
                    Store::SmallLightG(g) => probe_foreign_indexes(g.verif_terms(), extra),
                    Store::TinyFastG(g) => probe_foreign_indexes(g.verif_terms(), extra),
                    Store::Index32(i) => probe_foreign_indexes(i, extra),
                    Store::Index16(i) => probe_foreign_indexes(i, extra),
                };
                ctx.probe_n("get_term_foreign_index_panicked_(allowed)", u64::from(panics));
                simcore::driver::set_death_note("");
            }
            _ => {
                opname = "clone_then_drop_original";
                if pool.len() < 5 {
                    let (s, m, t) = &pool[which];
                    let c = (s.clone(), m.clone(), format!("s{next_tag}=clone({t})"));
                    next_tag += 1;
                    pool.push(c);
                    let (orig, _, _) = pool.remove(which);
                    drop(orig);
                    ctx.fault_in_op = true;
                }
            }
        }
        ctx.ops += 1;
        ctx.sig(opname);
        ctx.probe(opname);
        ev!(ctx, "op {step}: {opname} on slot {which}; pool={}", pool.len());
        ctx.sample(|| format!("op {step}: {opname} on slot {which} of {:?}", pool.iter().map(|x| x.2.as_str()).collect::<Vec<_>>()));
        // every live store is fully enumerated after every operation
        let when = format!("step {step} ({opname} on slot {which})");
        for (s, m, t) in &pool {
            check_store(t, s, m, &when)?;
        }
    }
    Ok(())
}

pub fn scenario() -> Scenario {
    Scenario {
        property: "C10",
        tag: 0xC10,
        run: run_c10,
        quick_runs: 40_000,
        thorough_runs: 2_000_000,
        level: "exploration",
        rule: "one run = one history (<= 40 operations) over a pool of <= 5 live stores of the 13 shipped kinds (datasets, graphs, bare term indexes; u32/u16/tiny index): insert/remove/query interleaved with clone, drop of original or clone, mem::swap, take, move through Box/Vec, growth bursts of 3..70 fresh terms; while the run is active the process allocator poisons (0xDF) and quarantines every freed block and moves on every realloc; after EVERY operation every live store is fully enumerated against its own reference model and its term index audited (t2i/i2t bijection, i2t entries borrow from their own keys); distinct = distinct (store kind, operation-kind sequence) signatures; non-trivial = a clone/drop happened, or >= 4 operations and >= 2 probes",
        real_components: &[
            "sophia_inmem::{GenericFastDataset, GenericLightDataset, GenericFastGraph, GenericLightGraph, SimpleTermIndex} incl. derive(Clone)/Drop and the unsafe lifetime extension in ensure_index",
            "std HashMap/Vec/BTreeSet growth (forced to relocate by the allocator seam)",
        ],
        stub_components: &[
            "SimAlloc (GlobalAlloc: poison + quarantine on free, always-move realloc; legal allocator behaviour)",
            "verif_audit / verif_terms hooks (read-only, feature verif_hooks)",
            "reference models (one per live store, forked at clone)",
        ],
        assumptions: &[
            "reads of released memory are detected as 0xDF content (model mismatch, audit failure or debug re-validation panic), not as a sanitizer report; the Miri batch of the thorough tier reports UB directly",
            "single-threaded histories: the stores are !Sync-free plain data, no interleaving dimension exists",
        ],
        panic_is_violation: true,
        death_is_violation: true,
        shrink_budget: 2000,
        run_timeout_s: 60,
        thorough_extra: None,
        warmup: None,
        enumerated: None,
    }
}
