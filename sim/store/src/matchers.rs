//! Matcher specifications: one data description, two independent evaluations — the reference
//! one over the model (`ref_match`), and a `DynMatcher` that wraps the REAL matcher values of
//! sophia_api and delegates `matches` / `constant` to them.

use simcore::model::*;
use simcore::tape::Tape;
use sophia_api::term::matcher::{
    Any, DatatypeMatcher, GraphNameMatcher, LanguageTagMatcher, Not, TermMatcher,
};
use sophia_api::term::{GraphName, IriRef, LanguageTag, SimpleTerm, Term, TermKind};

pub const RDF_LANGSTRING: &str = "http://www.w3.org/1999/02/22-rdf-syntax-ns#langString";

#[derive(Clone, Debug)]
pub enum MSpec {
    Any,
    One(MTerm),
    Two(MTerm, MTerm),
    Slice(Vec<MTerm>),
    Opt(Option<MTerm>),
    Kind(TermKind),
    /// closure: fingerprint(term) % 3 == r
    Closure(u8),
    Not(Box<MSpec>),
    Datatype(String),
    Lang(String),
    Triple(Box<[MSpec; 3]>),
}

pub fn norm(t: &MTerm) -> MTerm {
    simcore::r#gen::norm_term(t)
}

/// A deterministic fingerprint computed through accessor-level data only.
pub fn fingerprint(t: &MTerm) -> u64 {
    simcore::rng::fnv1a(format!("{}", norm(t)).as_bytes())
}

pub fn datatype_of(t: &MTerm) -> Option<String> {
    match t {
        MTerm::Lit(_, d) => Some(d.clone()),
        MTerm::Lang(..) => Some(RDF_LANGSTRING.to_string()),
        _ => None,
    }
}

impl MSpec {
    /// Reference semantics, on the normalised model term.
    pub fn ref_match(&self, t: &MTerm) -> bool {
        let t = &norm(t);
        match self {
            MSpec::Any => true,
            MSpec::One(a) => &norm(a) == t,
            MSpec::Two(a, b) => &norm(a) == t || &norm(b) == t,
            MSpec::Slice(v) => v.iter().any(|a| &norm(a) == t),
            MSpec::Opt(o) => o.as_ref().is_some_and(|a| &norm(a) == t),
            MSpec::Kind(k) => t.kind() == *k,
            MSpec::Closure(r) => fingerprint(t) % 3 == u64::from(*r),
            MSpec::Not(m) => !m.ref_match(t),
            MSpec::Datatype(d) => datatype_of(t).as_deref() == Some(d.as_str()),
            MSpec::Lang(tag) => {
                matches!(t, MTerm::Lang(_, tt) if tt.eq_ignore_ascii_case(tag))
            }
            MSpec::Triple(ms) => match t {
                MTerm::Triple(tr) => {
                    ms[0].ref_match(&tr[0]) && ms[1].ref_match(&tr[1]) && ms[2].ref_match(&tr[2])
                }
                _ => false,
            },
        }
    }

    /// If the specification pins exactly one term, which one (reference for `constant()`)?
    pub fn ref_constant(&self) -> Option<MTerm> {
        match self {
            MSpec::One(a) => Some(norm(a)),
            MSpec::Slice(v) if v.len() == 1 => Some(norm(&v[0])),
            MSpec::Opt(Some(a)) => Some(norm(a)),
            _ => None,
        }
    }

    pub fn build(&self) -> DynM {
        match self {
            MSpec::Any => DynM::Any,
            MSpec::One(a) => DynM::One([a.to_simple()]),
            MSpec::Two(a, b) => DynM::Two([a.to_simple(), b.to_simple()]),
            MSpec::Slice(v) => DynM::Slice(v.iter().map(MTerm::to_simple).collect()),
            MSpec::Opt(o) => DynM::Opt(o.as_ref().map(MTerm::to_simple)),
            MSpec::Kind(k) => DynM::Kind(*k),
            MSpec::Closure(r) => {
                let r = u64::from(*r);
                DynM::Closure(Box::new(move |t: SimpleTerm<'_>| {
                    fingerprint(&MTerm::from_term(t)) % 3 == r
                }))
            }
            MSpec::Not(m) => DynM::Not(Box::new(Not(m.build()))),
            MSpec::Datatype(d) => DynM::Datatype(DatatypeMatcher::new(
                IriRef::new(d.clone()).expect("datatype IRI"),
            )),
            MSpec::Lang(t) => DynM::Lang(LanguageTagMatcher::new(
                LanguageTag::new(t.clone()).expect("language tag"),
            )),
            MSpec::Triple(ms) => {
                DynM::Triple(Box::new((ms[0].build(), ms[1].build(), ms[2].build())))
            }
        }
    }

    pub fn kind_name(&self) -> &'static str {
        match self {
            MSpec::Any => "m_any",
            MSpec::One(_) => "m_array1",
            MSpec::Two(..) => "m_array2",
            MSpec::Slice(_) => "m_slice",
            MSpec::Opt(_) => "m_option",
            MSpec::Kind(_) => "m_kind",
            MSpec::Closure(_) => "m_closure",
            MSpec::Not(_) => "m_not",
            MSpec::Datatype(_) => "m_datatype",
            MSpec::Lang(_) => "m_langtag",
            MSpec::Triple(_) => "m_quoted_triple",
        }
    }
}

/// Wraps real matcher values; every call is forwarded to sophia_api's implementations.
pub enum DynM {
    Any,
    One([SimpleTerm<'static>; 1]),
    Two([SimpleTerm<'static>; 2]),
    Slice(Box<[SimpleTerm<'static>]>),
    Opt(Option<SimpleTerm<'static>>),
    Kind(TermKind),
    #[allow(clippy::type_complexity)]
    Closure(Box<dyn Fn(SimpleTerm<'_>) -> bool>),
    Not(Box<Not<DynM>>),
    Datatype(DatatypeMatcher<String>),
    Lang(LanguageTagMatcher<String>),
    Triple(Box<(DynM, DynM, DynM)>),
}

impl TermMatcher for DynM {
    type Term = SimpleTerm<'static>;

    fn matches<T2: Term + ?Sized>(&self, term: &T2) -> bool {
        match self {
            DynM::Any => TermMatcher::matches(&Any, term),
            DynM::One(a) => a.matches(term),
            DynM::Two(a) => a.matches(term),
            DynM::Slice(v) => (&v[..]).matches(term),
            DynM::Opt(o) => o.matches(term),
            DynM::Kind(k) => k.matches(term),
            DynM::Closure(f) => f.matches(term),
            DynM::Not(n) => n.matches(term),
            DynM::Datatype(d) => d.matches(term),
            DynM::Lang(l) => l.matches(term),
            DynM::Triple(t) => t.matches(term),
        }
    }

    fn constant(&self) -> Option<&SimpleTerm<'static>> {
        match self {
            DynM::Any => TermMatcher::constant(&Any).map(|_| unreachable!()),
            DynM::One(a) => a.constant(),
            DynM::Two(a) => a.constant(),
            DynM::Slice(v) => {
                let s: &[SimpleTerm<'static>] = &v[..];
                // SAFETY: the returned reference points into the boxed slice owned by `self`;
                // only the lifetime of the temporary `&s` is extended to that of `&self`.
                let c: Option<&SimpleTerm<'static>> = (&s).constant();
                c.map(|r| unsafe { &*(r as *const SimpleTerm<'static>) })
            }
            DynM::Opt(o) => o.constant(),
            DynM::Kind(k) => k.constant(),
            DynM::Closure(f) => {
                let _ = f;
                None
            }
            DynM::Not(n) => n.constant(),
            DynM::Datatype(d) => d.constant(),
            DynM::Lang(l) => l.constant(),
            DynM::Triple(t) => {
                // (S,P,O)::Term is S::Term; its constant() is the default None
                t.constant()
            }
        }
    }
}

// ---------------------------------------------------------------------------------------------
// graph name matchers

#[derive(Clone, Debug)]
pub enum GSpec {
    Any,
    /// a term matcher lifted with `.gn()`: never matches the default graph
    Gn(MSpec),
    /// Option<Option<T>>: None matches nothing, Some(g) matches exactly g
    OptOpt(Option<Option<MTerm>>),
    Arr1(Option<MTerm>),
    Arr2(Option<MTerm>, Option<MTerm>),
    Slice(Vec<Option<MTerm>>),
    KindOpt(Option<TermKind>),
    Closure(u8),
    Not(Box<GSpec>),
    TripleOpt(Option<Box<[MSpec; 3]>>),
}

fn gfinger(g: Option<&MTerm>) -> u64 {
    match g {
        None => 0,
        Some(t) => fingerprint(t),
    }
}

impl GSpec {
    pub fn ref_match(&self, g: Option<&MTerm>) -> bool {
        let gn = g.map(norm);
        let eq = |a: &Option<MTerm>| a.as_ref().map(norm) == gn;
        match self {
            GSpec::Any => true,
            GSpec::Gn(m) => g.is_some_and(|t| m.ref_match(t)),
            GSpec::OptOpt(o) => o.as_ref().is_some_and(eq),
            GSpec::Arr1(a) => eq(a),
            GSpec::Arr2(a, b) => eq(a) || eq(b),
            GSpec::Slice(v) => v.iter().any(eq),
            GSpec::KindOpt(k) => g.map(MTerm::kind) == *k,
            GSpec::Closure(r) => gfinger(g) % 3 == u64::from(*r),
            GSpec::Not(m) => !m.ref_match(g),
            GSpec::TripleOpt(o) => match (o, g) {
                (None, None) => true,
                (Some(ms), Some(MTerm::Triple(tr))) => {
                    ms[0].ref_match(&tr[0]) && ms[1].ref_match(&tr[1]) && ms[2].ref_match(&tr[2])
                }
                _ => false,
            },
        }
    }

    /// reference for `constant()`: Some(graph name) when exactly one graph name is pinned
    pub fn ref_constant(&self) -> Option<Option<MTerm>> {
        match self {
            GSpec::Gn(m) => m.ref_constant().map(Some),
            GSpec::OptOpt(Some(g)) => Some(g.as_ref().map(norm)),
            GSpec::Arr1(g) => Some(g.as_ref().map(norm)),
            GSpec::Slice(v) if v.len() == 1 => Some(v[0].as_ref().map(norm)),
            _ => None,
        }
    }

    pub fn build(&self) -> DynG {
        let gs = |g: &Option<MTerm>| g.as_ref().map(MTerm::to_simple);
        match self {
            GSpec::Any => DynG::Any,
            GSpec::Gn(m) => DynG::Gn(m.build().gn()),
            GSpec::OptOpt(o) => DynG::OptOpt(o.as_ref().map(gs)),
            GSpec::Arr1(a) => DynG::Arr1([gs(a)]),
            GSpec::Arr2(a, b) => DynG::Arr2([gs(a), gs(b)]),
            GSpec::Slice(v) => DynG::Slice(v.iter().map(gs).collect()),
            GSpec::KindOpt(k) => DynG::KindOpt(*k),
            GSpec::Closure(r) => {
                let r = u64::from(*r);
                DynG::Closure(Box::new(move |g: GraphName<SimpleTerm<'_>>| {
                    gfinger(g.map(MTerm::from_term).as_ref()) % 3 == r
                }))
            }
            GSpec::Not(m) => DynG::Not(Box::new(Not(m.build()))),
            GSpec::TripleOpt(o) => DynG::TripleOpt(
                o.as_ref()
                    .map(|ms| (ms[0].build(), ms[1].build(), ms[2].build())),
            ),
        }
    }

    pub fn kind_name(&self) -> &'static str {
        match self {
            GSpec::Any => "g_any",
            GSpec::Gn(_) => "g_term_matcher_gn",
            GSpec::OptOpt(_) => "g_option_option",
            GSpec::Arr1(_) => "g_array1",
            GSpec::Arr2(..) => "g_array2",
            GSpec::Slice(_) => "g_slice",
            GSpec::KindOpt(_) => "g_option_kind",
            GSpec::Closure(_) => "g_closure",
            GSpec::Not(_) => "g_not",
            GSpec::TripleOpt(_) => "g_option_triple",
        }
    }
}

pub enum DynG {
    Any,
    Gn(sophia_api::term::matcher::TermMatcherGn<DynM>),
    OptOpt(Option<Option<SimpleTerm<'static>>>),
    Arr1([GraphName<SimpleTerm<'static>>; 1]),
    Arr2([GraphName<SimpleTerm<'static>>; 2]),
    Slice(Box<[GraphName<SimpleTerm<'static>>]>),
    KindOpt(Option<TermKind>),
    #[allow(clippy::type_complexity)]
    Closure(Box<dyn Fn(GraphName<SimpleTerm<'_>>) -> bool>),
    Not(Box<Not<DynG>>),
    TripleOpt(Option<(DynM, DynM, DynM)>),
}

impl GraphNameMatcher for DynG {
    type Term = SimpleTerm<'static>;

    fn matches<T2: Term + ?Sized>(&self, g: GraphName<&T2>) -> bool {
        match self {
            DynG::Any => GraphNameMatcher::matches(&Any, g),
            DynG::Gn(m) => m.matches(g),
            DynG::OptOpt(o) => o.matches(g),
            DynG::Arr1(a) => a.matches(g),
            DynG::Arr2(a) => a.matches(g),
            DynG::Slice(v) => (&v[..]).matches(g),
            DynG::KindOpt(k) => k.matches(g),
            DynG::Closure(f) => f.matches(g),
            DynG::Not(n) => n.matches(g),
            DynG::TripleOpt(t) => t.matches(g),
        }
    }

    fn constant(&self) -> Option<GraphName<&SimpleTerm<'static>>> {
        match self {
            DynG::Any => GraphNameMatcher::constant(&Any).map(|_| unreachable!()),
            DynG::Gn(m) => m.constant(),
            DynG::OptOpt(o) => o.constant(),
            DynG::Arr1(a) => a.constant(),
            DynG::Arr2(a) => a.constant(),
            DynG::Slice(v) => {
                let s: &[GraphName<SimpleTerm<'static>>] = &v[..];
                let c: Option<GraphName<&SimpleTerm<'static>>> = (&s).constant();
                // SAFETY: as in DynM::Slice, the reference points into data owned by `self`.
                c.map(|g| g.map(|r| unsafe { &*(r as *const SimpleTerm<'static>) }))
            }
            DynG::KindOpt(k) => k.constant().map(|_| unreachable!()),
            DynG::Closure(_) => None,
            DynG::Not(n) => n.constant().map(|_| unreachable!()),
            DynG::TripleOpt(t) => t.constant().map(|_| unreachable!()),
        }
    }
}

// ---------------------------------------------------------------------------------------------
// drawing specifications

pub struct TermPool {
    /// terms of the run's alphabet (may or may not be in the store)
    pub present: Vec<MTerm>,
    /// terms never inserted
    pub absent: Vec<MTerm>,
    pub datatypes: Vec<String>,
    pub tags: Vec<String>,
}

impl TermPool {
    pub fn term(&self, t: &mut Tape) -> MTerm {
        if !self.absent.is_empty() && t.chance(1, 5) {
            self.absent[t.below(self.absent.len())].clone()
        } else {
            self.present[t.below(self.present.len())].clone()
        }
    }
}

pub fn draw_mspec(t: &mut Tape, pool: &TermPool, depth: usize) -> MSpec {
    const KINDS: [TermKind; 5] = [
        TermKind::Iri,
        TermKind::BlankNode,
        TermKind::Literal,
        TermKind::Triple,
        TermKind::Variable,
    ];
    match t.draw(16) {
        0..=4 => MSpec::Any,
        5 | 6 => MSpec::One(pool.term(t)),
        7 => MSpec::Two(pool.term(t), pool.term(t)),
        8 => {
            let n = t.below(4);
            MSpec::Slice((0..n).map(|_| pool.term(t)).collect())
        }
        9 => MSpec::Opt(if t.chance(1, 5) { None } else { Some(pool.term(t)) }),
        10 => MSpec::Kind(KINDS[t.below(5)]),
        11 => MSpec::Closure(t.below(3) as u8),
        12 if depth < 2 => MSpec::Not(Box::new(draw_mspec(t, pool, depth + 1))),
        13 => MSpec::Datatype(pool.datatypes[t.below(pool.datatypes.len())].clone()),
        14 => MSpec::Lang(pool.tags[t.below(pool.tags.len())].clone()),
        15 if depth < 2 => MSpec::Triple(Box::new([
            draw_mspec(t, pool, depth + 1),
            draw_mspec(t, pool, depth + 1),
            draw_mspec(t, pool, depth + 1),
        ])),
        _ => MSpec::One(pool.term(t)),
    }
}

pub fn draw_gname(t: &mut Tape, pool: &TermPool, graphs: &[Option<MTerm>]) -> Option<MTerm> {
    match t.draw(6) {
        0 => None,
        1..=3 => graphs[t.below(graphs.len())].clone(),
        _ => Some(pool.term(t)),
    }
}

pub fn draw_gspec(t: &mut Tape, pool: &TermPool, graphs: &[Option<MTerm>], depth: usize) -> GSpec {
    const KINDS: [Option<TermKind>; 6] = [
        None,
        Some(TermKind::Iri),
        Some(TermKind::BlankNode),
        Some(TermKind::Literal),
        Some(TermKind::Triple),
        Some(TermKind::Variable),
    ];
    match t.draw(14) {
        0..=3 => GSpec::Any,
        4 => GSpec::Gn(draw_mspec(t, pool, 1)),
        5 => GSpec::OptOpt(if t.chance(1, 5) {
            None
        } else {
            Some(draw_gname(t, pool, graphs))
        }),
        6 | 7 => GSpec::Arr1(draw_gname(t, pool, graphs)),
        8 => GSpec::Arr2(draw_gname(t, pool, graphs), draw_gname(t, pool, graphs)),
        9 => {
            let n = t.below(4);
            GSpec::Slice((0..n).map(|_| draw_gname(t, pool, graphs)).collect())
        }
        10 => GSpec::KindOpt(KINDS[t.below(6)]),
        11 => GSpec::Closure(t.below(3) as u8),
        12 if depth < 2 => GSpec::Not(Box::new(draw_gspec(t, pool, graphs, depth + 1))),
        13 => GSpec::TripleOpt(if t.chance(1, 3) {
            None
        } else {
            Some(Box::new([
                draw_mspec(t, pool, 1),
                draw_mspec(t, pool, 1),
                draw_mspec(t, pool, 1),
            ]))
        }),
        _ => GSpec::Arr1(None),
    }
}
