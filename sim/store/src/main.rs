//! Store scenarios: C01 (in-memory graphs/datasets behave as a set of quads), C11 (views stay
//! coherent), C10 (clones are independent and memory-safe). See /verif/DESIGN.md §5.

mod c10;
mod matchers;

use matchers::*;
use simcore::ctx::{Ctx, Verdict, Violation};
use simcore::driver::Scenario;
use simcore::r#gen::{Alphabet, Profile, norm_quad, norm_term};
use simcore::model::*;
use simcore::seams::SimFault;
use simcore::{ensure, ev};
use sophia_api::dataset::{Dataset, MutableDataset};
use sophia_api::graph::{Graph, MutableGraph};
use sophia_api::quad::{Gspo, Spog};
use sophia_api::source::StreamError;
use sophia_api::term::matcher::{GraphNameMatcher, TermMatcher};
use sophia_api::term::{SimpleTerm, Term};
use sophia_inmem::dataset::{GenericFastDataset, GenericLightDataset};
use sophia_inmem::graph::{GenericFastGraph, GenericLightGraph};
use sophia_inmem::index::{Index, SimpleTermIndex, TermIndexFullError};
use std::collections::{BTreeMap, BTreeSet, HashSet};

simcore::install_getrandom!();

#[global_allocator]
static GLOBAL: c10::SimAlloc = c10::SimAlloc;

type ST = SimpleTerm<'static>;

#[derive(Clone, Copy, Debug, Default, PartialEq, Eq, PartialOrd, Ord)]
pub struct TinyIdx<const M: u16>(u16);

impl<const M: u16> Index for TinyIdx<M> {
    const ZERO: Self = TinyIdx(0);
    const MAX: Self = TinyIdx(M);
    fn from_usize(other: usize) -> Self {
        TinyIdx(other.min(u16::MAX as usize) as u16)
    }
    fn into_usize(self) -> usize {
        self.0 as usize
    }
}

pub type TI<const M: u16> = SimpleTermIndex<TinyIdx<M>>;

// ---------------------------------------------------------------------------------------------
// reference model of one store

#[derive(Clone, Debug)]
pub struct Model {
    /// set semantics (false: list semantics of the Vec-backed implementations)
    pub set: bool,
    /// normalised quads; for list semantics duplicates are kept
    pub quads: Vec<MQuad>,
    /// capacity of the term index and the terms it holds (inmem stores never forget a term)
    pub index: Option<(usize, BTreeSet<MTerm>)>,
}

impl Model {
    pub fn new(set: bool, cap: Option<usize>) -> Self {
        Self {
            set,
            quads: vec![],
            index: cap.map(|c| (c, BTreeSet::new())),
        }
    }

    pub fn contains(&self, q: &MQuad) -> bool {
        self.quads.contains(q)
    }

    /// Models `ensure_index` on s, p, o, g in that order. Err = index full (terms indexed before
    /// the failing one stay indexed).
    fn index_terms(&mut self, q: &MQuad) -> Result<(), ()> {
        if let Some((cap, terms)) = &mut self.index {
            let mut ts: Vec<&MTerm> = vec![&q.0[0], &q.0[1], &q.0[2]];
            if let Some(g) = &q.1 {
                ts.push(g);
            }
            for t in ts {
                if !terms.contains(t) {
                    if terms.len() >= *cap {
                        return Err(());
                    }
                    terms.insert(t.clone());
                }
            }
        }
        Ok(())
    }

    /// Ok(flag) or Err(()) = index full
    pub fn insert(&mut self, q: &MQuad) -> Result<bool, ()> {
        let q = norm_quad(q);
        self.index_terms(&q)?;
        if self.set {
            if self.quads.contains(&q) {
                Ok(false)
            } else {
                self.quads.push(q);
                Ok(true)
            }
        } else {
            self.quads.push(q);
            Ok(true)
        }
    }

    pub fn remove(&mut self, q: &MQuad) -> bool {
        let q = norm_quad(q);
        if self.set {
            match self.quads.iter().position(|x| *x == q) {
                Some(i) => {
                    self.quads.remove(i);
                    true
                }
                None => false,
            }
        } else {
            // Vec-backed: removes every occurrence and answers true (documented list behaviour)
            self.quads.retain(|x| *x != q);
            true
        }
    }

    pub fn sorted(&self) -> Vec<MQuad> {
        let mut v = self.quads.clone();
        v.sort();
        v
    }
}

pub fn sorted(mut v: Vec<MQuad>) -> Vec<MQuad> {
    v.sort();
    v
}

fn is_index_full<E: std::error::Error + 'static>(e: &E) -> bool {
    let mut cur: Option<&(dyn std::error::Error + 'static)> = Some(e);
    let mut depth = 0;
    while let Some(c) = cur {
        if c.downcast_ref::<TermIndexFullError>().is_some() {
            return true;
        }
        depth += 1;
        if depth > 8 {
            break;
        }
        cur = c.source();
    }
    // wrappers that do not expose their source (GraphAsDatasetMutationError::Graph)
    e.to_string().contains("TermIndex can not contain more terms") || format!("{e:?}").contains("TermIndexFullError")
}

// ---------------------------------------------------------------------------------------------
// operations

#[derive(Clone, Debug)]
pub enum Op {
    Insert(MQuad),
    Remove(MQuad),
    /// quads, position at which the source fails (None: never)
    InsertAll(Vec<MQuad>, Option<usize>),
    RemoveAll(Vec<MQuad>, Option<usize>),
    RemoveMatching([MSpec; 3], GSpec),
    RetainMatching([MSpec; 3], GSpec),
    Matching([MSpec; 3], GSpec),
    Contains(MQuad),
    Terms,
    /// replace the store by one collected from a source (`from_quad_source` /
    /// `from_triple_source`), which may fail at a position
    Collect(Vec<MQuad>, Option<usize>),
    // ---- C11: views
    ViewTriples(Option<MTerm>),
    ViewMatching(Option<MTerm>, [MSpec; 3]),
    ViewContains(Option<MTerm>, MTriple),
    ViewInsert(Option<MTerm>, MTriple),
    ViewRemove(Option<MTerm>, MTriple),
    /// pattern / bulk mutations through a mutable single-graph view
    ViewRemoveMatching(Option<MTerm>, [MSpec; 3]),
    ViewRetainMatching(Option<MTerm>, [MSpec; 3]),
    ViewInsertAll(Option<MTerm>, Vec<MTriple>, Option<usize>),
    ViewRemoveAll(Option<MTerm>, Vec<MTriple>, Option<usize>),
    UnionTriples,
    UnionMatching([MSpec; 3]),
    PartialUnion(GSpec, [MSpec; 3]),
}

impl Op {
    fn name(&self) -> &'static str {
        match self {
            Op::Insert(_) => "insert",
            Op::Remove(_) => "remove",
            Op::InsertAll(..) => "insert_all",
            Op::RemoveAll(..) => "remove_all",
            Op::RemoveMatching(..) => "remove_matching",
            Op::RetainMatching(..) => "retain_matching",
            Op::Matching(..) => "quads_matching",
            Op::Contains(_) => "contains",
            Op::Terms => "term_enumerations",
            Op::Collect(..) => "collect_from_source",
            Op::ViewTriples(_) => "view_triples",
            Op::ViewMatching(..) => "view_triples_matching",
            Op::ViewContains(..) => "view_contains",
            Op::ViewInsert(..) => "view_insert",
            Op::ViewRemove(..) => "view_remove",
            Op::ViewRemoveMatching(..) => "view_remove_matching",
            Op::ViewRetainMatching(..) => "view_retain_matching",
            Op::ViewInsertAll(..) => "view_insert_all",
            Op::ViewRemoveAll(..) => "view_remove_all",
            Op::UnionTriples => "union_graph_triples",
            Op::UnionMatching(_) => "union_graph_matching",
            Op::PartialUnion(..) => "partial_union_graph",
        }
    }
}

struct FaultyQuads {
    items: Vec<(([ST; 3], Option<ST>), MQuad)>,
    pos: usize,
    fail_at: Option<usize>,
}

impl Iterator for FaultyQuads {
    type Item = Result<Spog<ST>, SimFault>;
    fn next(&mut self) -> Option<Self::Item> {
        if self.fail_at == Some(self.pos) {
            self.fail_at = None;
            return Some(Err(SimFault { id: 9001 }));
        }
        let it = self.items.get(self.pos).map(|x| x.0.clone());
        self.pos += 1;
        it.map(Ok)
    }
}

fn faulty(quads: &[MQuad], fail_at: Option<usize>) -> FaultyQuads {
    FaultyQuads {
        items: quads.iter().map(|q| (quad_to_simple(q), q.clone())).collect(),
        pos: 0,
        fail_at,
    }
}

fn content<D: Dataset>(d: &D) -> Vec<MQuad> {
    d.quads()
        .map(|q| {
            norm_quad(&quad_from(
                q.unwrap_or_else(|_| panic!("ORACLE: quads() yielded an error")),
            ))
        })
        .collect()
}

fn fmt_list(v: &[MQuad]) -> String {
    let mut s = String::new();
    for q in v.iter().take(12) {
        s.push_str("\n    ");
        s.push_str(&fmt_quad(q));
    }
    if v.len() > 12 {
        s.push_str("\n    ...");
    }
    s
}

fn check_content<D: Dataset>(name: &str, d: &D, m: &Model, when: &str) -> Verdict {
    let got = sorted(content(d));
    let want = m.sorted();
    ensure!(
        got == want,
        format!("content_mismatch/{name}"),
        "{name} after {when}: store holds{}\n  but the reference {} holds{}",
        fmt_list(&got),
        if m.set { "set" } else { "list" },
        fmt_list(&want)
    );
    Ok(())
}

fn matches_ref(ms: &[MSpec; 3], g: &GSpec, q: &MQuad) -> bool {
    ms[0].ref_match(&q.0[0])
        && ms[1].ref_match(&q.0[1])
        && ms[2].ref_match(&q.0[2])
        && g.ref_match(q.1.as_ref())
}

/// `constant() == Some(t)` must imply `matches(x) <=> x == t` over the alphabet.
fn check_constant_contract(ctx: &mut Ctx, spec: &MSpec, dm: &DynM, pool: &TermPool) -> Verdict {
    let c = dm.constant().map(|t| norm_term(&MTerm::from_term(t)));
    ensure!(
        c == spec.ref_constant(),
        "matcher_constant_contract",
        "matcher {spec:?}: constant() = {c:?}, expected {:?}",
        spec.ref_constant()
    );
    if let Some(k) = &c {
        ctx.probe("matcher_constant_some");
        for x in pool.present.iter().chain(pool.absent.iter()) {
            let got = dm.matches(&x.to_simple());
            ensure!(
                got == (norm_term(x) == *k),
                "matcher_constant_contract",
                "matcher {spec:?} has constant {k} but matches({x}) = {got}"
            );
        }
    }
    Ok(())
}

/// Apply one operation to one dataset implementation and its model.
fn step_ds<D>(ctx: &mut Ctx, name: &str, d: &mut D, m: &mut Model, op: &Op, pool: &TermPool) -> Verdict
where
    D: MutableDataset,
    D::MutationError: From<D::Error>,
{
    let o = |n: &str| format!("{n}/{name}");
    match op {
        Op::Insert(q) => {
            let sq = quad_to_simple(q);
            let before = m.clone();
            let want = m.insert(q);
            let got = d.insert(&sq.0[0], &sq.0[1], &sq.0[2], sq.1.as_ref());
            match (got, want) {
                (Ok(f), Ok(w)) => ensure!(
                    f == w || !m.set,
                    o("insert_flag"),
                    "{name}: insert({}) returned {f}, the set {} change",
                    fmt_quad(q),
                    if w { "did" } else { "did not" }
                ),
                (Err(e), Err(())) => {
                    ensure!(is_index_full(&e), o("insert_error"), "{name}: expected TermIndexFullError, got {e}");
                    ctx.fault("term_index_full");
                    ctx.fault_in_op = true;
                    // content unchanged
                    let idx = m.index.clone();
                    *m = before;
                    m.index = idx;
                }
                (Ok(f), Err(())) => {
                    return Err(Violation::new(
                        o("index_full_not_reported"),
                        format!("{name}: insert({}) returned Ok({f}) although the term index (capacity {:?}) is full", fmt_quad(q), m.index.as_ref().map(|i| i.0)),
                    ));
                }
                (Err(e), Ok(_)) => {
                    return Err(Violation::new(
                        o("spurious_error"),
                        format!("{name}: insert({}) failed: {e} (index holds {:?} of {:?})", fmt_quad(q), m.index.as_ref().map(|i| i.1.len()), m.index.as_ref().map(|i| i.0)),
                    ));
                }
            }
        }
        Op::Remove(q) => {
            let sq = quad_to_simple(q);
            let want = m.remove(q);
            let got = d
                .remove(&sq.0[0], &sq.0[1], &sq.0[2], sq.1.as_ref())
                .map_err(|e| Violation::new(o("spurious_error"), format!("{name}: remove failed: {e}")))?;
            ensure!(
                got == want || !m.set,
                o("remove_flag"),
                "{name}: remove({}) returned {got}, the reference says {want}",
                fmt_quad(q)
            );
        }
        Op::InsertAll(qs, fail_at) => {
            // reference: apply until the source fails or the index is full
            let mut applied = 0usize;
            let mut effective = 0usize;
            let mut want_err: Option<&'static str> = None;
            for (i, q) in qs.iter().enumerate() {
                if *fail_at == Some(i) {
                    want_err = Some("source");
                    break;
                }
                let before = m.clone();
                match m.insert(q) {
                    Ok(f) => {
                        applied += 1;
                        if f {
                            effective += 1;
                        }
                    }
                    Err(()) => {
                        let idx = m.index.clone();
                        *m = before;
                        m.index = idx;
                        want_err = Some("sink");
                        break;
                    }
                }
            }
            if want_err.is_none() && *fail_at == Some(qs.len()) {
                want_err = Some("source");
            }
            let _ = applied;
            let got = d.insert_all(faulty(qs, *fail_at));
            match (got, want_err) {
                (Ok(c), None) => ensure!(
                    c == effective || !m.set,
                    o("insert_all_count"),
                    "{name}: insert_all returned {c}, {effective} insertions were effective"
                ),
                (Err(StreamError::SourceError(e)), Some("source")) => {
                    ensure!(e.id == 9001, o("error_identity"), "{name}: wrong source error {e:?}");
                    ctx.fault("source_error_in_bulk_op");
                    ctx.fault_in_op = true;
                }
                (Err(StreamError::SinkError(e)), Some("sink")) => {
                    ensure!(is_index_full(&e), o("error_identity"), "{name}: expected TermIndexFullError, got {e}");
                    ctx.fault("term_index_full_in_bulk_op");
                    ctx.fault_in_op = true;
                }
                (other, want) => {
                    return Err(Violation::new(
                        o("bulk_outcome"),
                        format!(
                            "{name}: insert_all over {} quads (source fails at {fail_at:?}) returned {}, the reference expects {want:?}",
                            qs.len(),
                            match &other {
                                Ok(c) => format!("Ok({c})"),
                                Err(StreamError::SourceError(_)) => "SourceError".into(),
                                Err(StreamError::SinkError(e)) => format!("SinkError({e})"),
                            }
                        ),
                    ));
                }
            }
        }
        Op::RemoveAll(qs, fail_at) => {
            let mut effective = 0usize;
            let mut want_err = false;
            for (i, q) in qs.iter().enumerate() {
                if *fail_at == Some(i) {
                    want_err = true;
                    break;
                }
                if m.remove(q) {
                    effective += 1;
                }
            }
            if !want_err && *fail_at == Some(qs.len()) {
                want_err = true;
            }
            match d.remove_all(faulty(qs, *fail_at)) {
                Ok(c) => {
                    ensure!(!want_err, o("bulk_outcome"), "{name}: remove_all returned Ok({c}) although the source failed");
                    ensure!(c == effective || !m.set, o("remove_all_count"), "{name}: remove_all returned {c}, {effective} removals were effective");
                }
                Err(StreamError::SourceError(e)) => {
                    ensure!(want_err && e.id == 9001, o("bulk_outcome"), "{name}: unexpected source error from remove_all");
                    ctx.fault("source_error_in_bulk_op");
                    ctx.fault_in_op = true;
                }
                Err(StreamError::SinkError(e)) => {
                    return Err(Violation::new(o("spurious_error"), format!("{name}: remove_all failed on the sink side: {e}")));
                }
            }
        }
        Op::RemoveMatching(ms, g) => {
            let (dm, dg) = ([ms[0].build(), ms[1].build(), ms[2].build()], g.build());
            let before = m.quads.len();
            m.quads.retain(|q| !matches_ref(ms, g, q));
            let removed = before - m.quads.len();
            let [a, b, c] = dm;
            let got = d
                .remove_matching(a, b, c, dg)
                .map_err(|e| Violation::new(o("spurious_error"), format!("{name}: remove_matching failed: {e}")))?;
            if m.set {
                ensure!(
                    got == removed,
                    o("remove_matching_count"),
                    "{name}: remove_matching({ms:?}, {g:?}) returned {got}, the reference removed {removed}"
                );
            }
        }
        Op::RetainMatching(ms, g) => {
            let (dm, dg) = ([ms[0].build(), ms[1].build(), ms[2].build()], g.build());
            m.quads.retain(|q| matches_ref(ms, g, q));
            let [a, b, c] = dm;
            d.retain_matching(a, b, c, dg)
                .map_err(|e| Violation::new(o("spurious_error"), format!("{name}: retain_matching failed: {e}")))?;
        }
        Op::Matching(ms, g) => {
            let dm = [ms[0].build(), ms[1].build(), ms[2].build()];
            let dg = g.build();
            for (spec, built) in ms.iter().zip(dm.iter()) {
                check_constant_contract(ctx, spec, built, pool)?;
            }
            {
                let c = dg.constant().map(|g| g.map(|t| norm_term(&MTerm::from_term(t))));
                ensure!(
                    c == g.ref_constant(),
                    "matcher_constant_contract",
                    "graph name matcher {g:?}: constant() = {c:?}, expected {:?}",
                    g.ref_constant()
                );
            }
            let want = sorted(m.quads.iter().filter(|q| matches_ref(ms, g, q)).cloned().collect());
            let [a, b, c] = dm;
            let got: Vec<MQuad> = d
                .quads_matching(a, b, c, dg)
                .map(|q| norm_quad(&quad_from(q.unwrap_or_else(|_| panic!("ORACLE: quads_matching yielded an error")))))
                .collect();
            let got = sorted(got);
            if !want.is_empty() {
                ctx.probe("pattern_query_nonempty");
            }
            ensure!(
                got == want,
                o("pattern_query"),
                "{name}: quads_matching({ms:?}, {g:?}) returned{}\n  but filtering the reference gives{}\n  store content:{}",
                fmt_list(&got),
                fmt_list(&want),
                fmt_list(&m.sorted())
            );
        }
        Op::Contains(q) => {
            let sq = quad_to_simple(q);
            let got = d
                .contains(&sq.0[0], &sq.0[1], &sq.0[2], sq.1.as_ref())
                .unwrap_or_else(|_| panic!("ORACLE: contains failed"));
            let want = m.contains(&norm_quad(q));
            ensure!(got == want, o("contains"), "{name}: contains({}) = {got}, reference says {want}", fmt_quad(q));
        }
        Op::Terms => panic!("ORACLE: term enumerations go through step_ds_terms"),
        Op::Collect(..) => panic!("ORACLE: collect goes through step_ds_collect"),
        Op::ViewTriples(_) | Op::ViewMatching(..) | Op::ViewContains(..) | Op::ViewInsert(..) | Op::ViewRemove(..) | Op::ViewRemoveMatching(..) | Op::ViewRetainMatching(..) | Op::ViewInsertAll(..) | Op::ViewRemoveAll(..) => {
            panic!("ORACLE: single-graph view operations go through step_ds_view");
        }
        Op::UnionTriples | Op::UnionMatching(_) | Op::PartialUnion(..) => {
            let any3 = [MSpec::Any, MSpec::Any, MSpec::Any];
            let (sel, ms): (GSpec, &[MSpec; 3]) = match op {
                Op::UnionTriples => (GSpec::Any, &any3),
                Op::UnionMatching(ms) => (GSpec::Any, ms),
                Op::PartialUnion(sel, ms) => (sel.clone(), ms),
                _ => unreachable!(),
            };
            let mut want_counts: BTreeMap<MTriple, usize> = BTreeMap::new();
            for q in &m.quads {
                if sel.ref_match(q.1.as_ref()) && ms[0].ref_match(&q.0[0]) && ms[1].ref_match(&q.0[1]) && ms[2].ref_match(&q.0[2]) {
                    *want_counts.entry(q.0.clone()).or_insert(0) += 1;
                }
            }
            let got: Vec<MTriple> = match op {
                Op::UnionTriples => d
                    .union_graph()
                    .triples()
                    .map(|t| norm_quad(&(triple_from(t.unwrap_or_else(|_| panic!("ORACLE: union triples failed"))), None)).0)
                    .collect(),
                Op::UnionMatching(ms) => d
                    .union_graph()
                    .triples_matching(ms[0].build(), ms[1].build(), ms[2].build())
                    .map(|t| norm_quad(&(triple_from(t.unwrap_or_else(|_| panic!("ORACLE: union matching failed"))), None)).0)
                    .collect(),
                _ => {
                    let dg = sel.build();
                    d.partial_union_graph(dg.matcher_ref())
                        .triples_matching(ms[0].build(), ms[1].build(), ms[2].build())
                        .map(|t| norm_quad(&(triple_from(t.unwrap_or_else(|_| panic!("ORACLE: partial union failed"))), None)).0)
                        .collect()
                }
            };
            let mut got_counts: BTreeMap<MTriple, usize> = BTreeMap::new();
            for t in got {
                *got_counts.entry(t).or_insert(0) += 1;
            }
            // exactly the triples of the selected quads; a triple present in k selected graphs may
            // show up between 1 and k times (the union view is not declared a SetGraph)
            let same_keys = got_counts.keys().eq(want_counts.keys());
            let counts_ok = got_counts.iter().all(|(t, c)| *c >= 1 && *c <= want_counts.get(t).copied().unwrap_or(0).max(1));
            ensure!(
                same_keys && (counts_ok || !m.set),
                o("union_view"),
                "{name}: {} over selector {sel:?} shows {} distinct triples, the reference {} (multiplicities ok: {counts_ok})",
                op.name(),
                got_counts.len(),
                want_counts.len()
            );
        }
    }
    check_content(name, d, m, op.name())
}


/// `CollectibleDataset::from_quad_source`: on success the store is replaced by the collected
/// one, on failure (source error, or term index full: a sink error) it is left alone.
fn step_ds_collect<D>(ctx: &mut Ctx, name: &str, d: &mut D, m: &mut Model, op: &Op) -> Verdict
where
    D: sophia_api::dataset::CollectibleDataset,
{
    let o = |n: &str| format!("{n}/{name}");
    let Op::Collect(qs, fail_at) = op else { return Ok(()) };
    let mut m2 = Model::new(m.set, m.index.as_ref().map(|i| i.0));
    let mut want_err: Option<&'static str> = None;
    for (i, q) in qs.iter().enumerate() {
        if *fail_at == Some(i) {
            want_err = Some("source");
            break;
        }
        if m2.insert(q).is_err() {
            want_err = Some("sink");
            break;
        }
    }
    if want_err.is_none() && *fail_at == Some(qs.len()) {
        want_err = Some("source");
    }
    match (D::from_quad_source(faulty(qs, *fail_at)), want_err) {
        (Ok(d2), None) => {
            *d = d2;
            *m = m2;
        }
        (Err(StreamError::SourceError(e)), Some("source")) => {
            ensure!(e.id == 9001, o("error_identity"), "{name}: wrong source error {e:?}");
            ctx.fault("source_error_in_collect");
            ctx.fault_in_op = true;
        }
        (Err(StreamError::SinkError(e)), Some("sink")) => {
            ensure!(is_index_full(&e), o("error_identity"), "{name}: expected TermIndexFullError, got {e}");
            ctx.fault("term_index_full_in_collect");
            ctx.fault_in_op = true;
        }
        (other, want) => {
            return Err(Violation::new(
                o("collect_outcome"),
                format!(
                    "{name}: from_quad_source over {} quads (source fails at {fail_at:?}) returned {}, the reference expects {want:?}",
                    qs.len(),
                    match &other {
                        Ok(d2) => format!("Ok(dataset of {} quads)", d2.quads().count()),
                        Err(StreamError::SourceError(_)) => "SourceError".into(),
                        Err(StreamError::SinkError(e)) => format!("SinkError({e})"),
                    }
                ),
            ));
        }
    }
    check_content(name, d, m, op.name())
}

fn step_graph_collect<G>(ctx: &mut Ctx, name: &str, g: &mut G, m: &mut Model, op: &Op) -> Verdict
where
    G: sophia_api::graph::CollectibleGraph,
{
    let o = |n: &str| format!("{n}/{name}");
    let Op::Collect(qs, fail_at) = op else { return Ok(()) };
    let qs: Vec<MQuad> = qs.iter().map(|q| (q.0.clone(), None)).collect();
    let mut m2 = Model::new(m.set, m.index.as_ref().map(|i| i.0));
    let mut want_err: Option<&'static str> = None;
    for (i, q) in qs.iter().enumerate() {
        if *fail_at == Some(i) {
            want_err = Some("source");
            break;
        }
        if m2.insert(q).is_err() {
            want_err = Some("sink");
            break;
        }
    }
    if want_err.is_none() && *fail_at == Some(qs.len()) {
        want_err = Some("source");
    }
    use sophia_api::source::QuadSource;
    match (G::from_triple_source(faulty(&qs, *fail_at).to_triples()), want_err) {
        (Ok(g2), None) => {
            *g = g2;
            *m = m2;
        }
        (Err(StreamError::SourceError(e)), Some("source")) => {
            ensure!(e.id == 9001, o("error_identity"), "{name}: wrong source error {e:?}");
            ctx.fault("source_error_in_collect");
            ctx.fault_in_op = true;
        }
        (Err(StreamError::SinkError(e)), Some("sink")) => {
            ensure!(is_index_full(&e), o("error_identity"), "{name}: expected TermIndexFullError, got {e}");
            ctx.fault("term_index_full_in_collect");
            ctx.fault_in_op = true;
        }
        (other, want) => {
            return Err(Violation::new(
                o("collect_outcome"),
                format!(
                    "{name}: from_triple_source over {} triples (source fails at {fail_at:?}) returned {}, the reference expects {want:?}",
                    qs.len(),
                    match &other {
                        Ok(g2) => format!("Ok(graph of {} triples)", g2.triples().count()),
                        Err(StreamError::SourceError(_)) => "SourceError".into(),
                        Err(StreamError::SinkError(e)) => format!("SinkError({e})"),
                    }
                ),
            ));
        }
    }
    let got = {
        let mut v = gcontent(g);
        v.sort();
        v
    };
    let want: Vec<MTriple> = {
        let mut v: Vec<MTriple> = m.quads.iter().map(|q| q.0.clone()).collect();
        v.sort();
        v
    };
    ensure!(
        got == want,
        format!("content_mismatch/{name}"),
        "{name} after {}: graph holds {} triples, the reference {} holds {}",
        op.name(),
        got.len(),
        if m.set { "set" } else { "list" },
        want.len()
    );
    Ok(())
}

/// Term enumerations (`quoted_triples` needs the term type to be Clone for every lifetime,
/// which only owned store types can promise).
fn step_ds_terms<D>(name: &str, d: &D, m: &Model, op: &Op) -> Verdict
where
    D: Dataset + 'static,
    for<'x> sophia_api::dataset::DTerm<'x, D>: Clone,
{
    let o = |n: &str| format!("{n}/{name}");
    match op {
        Op::Terms => {
            type TS = BTreeSet<MTerm>;
            fn collect<'a, I, T, E>(it: I) -> TS
            where
                I: Iterator<Item = Result<T, E>> + 'a,
                T: Term,
            {
                it.map(|t| norm_term(&MTerm::from_term(t.unwrap_or_else(|_| panic!("ORACLE: term enumeration failed")))))
                    .collect()
            }
            let all_atoms = |f: &dyn Fn(&MTerm) -> bool| -> TS {
                let mut out = TS::new();
                fn walk(t: &MTerm, f: &dyn Fn(&MTerm) -> bool, out: &mut BTreeSet<MTerm>) {
                    if f(t) {
                        out.insert(t.clone());
                    }
                    if let MTerm::Triple(tr) = t {
                        for x in tr.iter() {
                            walk(x, f, out);
                        }
                    }
                }
                for q in &m.quads {
                    for t in &q.0 {
                        walk(t, f, &mut out);
                    }
                    if let Some(g) = &q.1 {
                        walk(g, f, &mut out);
                    }
                }
                out
            };
            let pos = |i: usize| -> TS { m.quads.iter().map(|q| q.0[i].clone()).collect() };
            let checks: Vec<(&str, TS, TS)> = vec![
                ("subjects", collect(d.subjects()), pos(0)),
                ("predicates", collect(d.predicates()), pos(1)),
                ("objects", collect(d.objects()), pos(2)),
                ("graph_names", collect(d.graph_names()), m.quads.iter().filter_map(|q| q.1.clone()).collect()),
                ("iris", collect(d.iris()), all_atoms(&|t| matches!(t, MTerm::Iri(_)))),
                ("blank_nodes", collect(d.blank_nodes()), all_atoms(&|t| matches!(t, MTerm::Bnode(_)))),
                ("literals", collect(d.literals()), all_atoms(&|t| matches!(t, MTerm::Lit(..) | MTerm::Lang(..)))),
                ("quoted_triples", collect(d.quoted_triples()), all_atoms(&|t| matches!(t, MTerm::Triple(_)))),
                ("variables", collect(d.variables()), all_atoms(&|t| matches!(t, MTerm::Var(_)))),
            ];
            for (what, got, want) in checks {
                ensure!(
                    got == want,
                    o("term_enumeration"),
                    "{name}: {what}() = {:?} but the reference says {:?}",
                    got.iter().map(|t| t.to_string()).collect::<Vec<_>>(),
                    want.iter().map(|t| t.to_string()).collect::<Vec<_>>()
                );
            }
        }
        _ => panic!("ORACLE: not a term enumeration"),
    }
    Ok(())
}

/// Single-graph views (`Dataset::graph` / `graph_mut`): these methods require the graph name
/// type to borrow as the dataset's own term type, hence the extra bound and owned arguments.
fn step_ds_view<D>(ctx: &mut Ctx, name: &str, d: &mut D, m: &mut Model, op: &Op) -> Verdict
where
    D: MutableDataset + 'static,
    D::MutationError: From<D::Error>,
    ST: for<'x> Term<BorrowTerm<'x> = sophia_api::dataset::DTerm<'x, D>>,
{
    let o = |n: &str| format!("{n}/{name}");
    match op {
        // ---------------- C11 views over a dataset
        Op::ViewTriples(g) => {
            let sg = g.as_ref().map(MTerm::to_simple);
            let gn = g.as_ref().map(norm_term);
            let want: Vec<MTriple> = {
                let mut v: Vec<MTriple> = m.quads.iter().filter(|q| q.1 == gn).map(|q| q.0.clone()).collect();
                v.sort();
                v
            };
            let view = D::graph(d, sg.clone());
            let mut got: Vec<MTriple> = view
                .triples()
                .map(|t| norm_quad(&(triple_from(t.unwrap_or_else(|_| panic!("ORACLE: view triples failed"))), None)).0)
                .collect();
            got.sort();
            ensure!(got == want, o("view_content"), "{name}: graph({g:?}).triples() = {} triples, the reference projects {}", got.len(), want.len());
        }
        Op::ViewMatching(g, ms) => {
            let sg = g.as_ref().map(MTerm::to_simple);
            let gn = g.as_ref().map(norm_term);
            let mut want: Vec<MTriple> = m
                .quads
                .iter()
                .filter(|q| q.1 == gn && ms[0].ref_match(&q.0[0]) && ms[1].ref_match(&q.0[1]) && ms[2].ref_match(&q.0[2]))
                .map(|q| q.0.clone())
                .collect();
            want.sort();
            let view = D::graph(d, sg.clone());
            let mut got: Vec<MTriple> = view
                .triples_matching(ms[0].build(), ms[1].build(), ms[2].build())
                .map(|t| norm_quad(&(triple_from(t.unwrap_or_else(|_| panic!("ORACLE: view matching failed"))), None)).0)
                .collect();
            got.sort();
            ensure!(got == want, o("view_pattern_query"), "{name}: graph({g:?}).triples_matching({ms:?}) returned {} triples, filtering the store gives {}", got.len(), want.len());
        }
        Op::ViewContains(g, t) => {
            let sg = g.as_ref().map(MTerm::to_simple);
            let st = triple_to_simple(t);
            let want = m.contains(&norm_quad(&(t.clone(), g.clone())));
            let got = D::graph(d, sg.clone()).contains(st[0].clone(), st[1].clone(), st[2].clone()).unwrap_or_else(|_| panic!("ORACLE: view contains failed"));
            ensure!(got == want, o("view_contains"), "{name}: graph({g:?}).contains(..) = {got}, reference {want}");
        }
        Op::ViewInsert(g, t) => {
            let sg = g.as_ref().map(MTerm::to_simple);
            let st = triple_to_simple(t);
            let q = (t.clone(), g.clone());
            let before = m.clone();
            let want = m.insert(&q);
            let got = D::graph_mut(d, sg.clone()).insert(st[0].clone(), st[1].clone(), st[2].clone());
            match (got, want) {
                (Ok(f), Ok(w)) => ensure!(f == w || !m.set, o("view_insert_flag"), "{name}: graph_mut({g:?}).insert returned {f}, the direct operation would return {w}"),
                (Err(e), Err(())) => {
                    ensure!(is_index_full(&e), o("insert_error"), "{name}: expected TermIndexFullError, got {e}");
                    ctx.fault("term_index_full");
                    ctx.fault_in_op = true;
                    let idx = m.index.clone();
                    *m = before;
                    m.index = idx;
                }
                (Ok(f), Err(())) => return Err(Violation::new(o("index_full_not_reported"), format!("{name}: view insert returned Ok({f}) with a full index"))),
                (Err(e), Ok(_)) => return Err(Violation::new(o("spurious_error"), format!("{name}: view insert failed: {e}"))),
            }
        }
        Op::ViewRemove(g, t) => {
            let sg = g.as_ref().map(MTerm::to_simple);
            let st = triple_to_simple(t);
            let want = m.remove(&(t.clone(), g.clone()));
            let got = D::graph_mut(d, sg.clone())
                .remove(st[0].clone(), st[1].clone(), st[2].clone())
                .map_err(|e| Violation::new(o("spurious_error"), format!("{name}: view remove failed: {e}")))?;
            ensure!(got == want || !m.set, o("view_remove_flag"), "{name}: graph_mut({g:?}).remove returned {got}, the direct operation would return {want}");
        }
        Op::ViewRemoveMatching(g, ms) | Op::ViewRetainMatching(g, ms) => {
            let sg = g.as_ref().map(MTerm::to_simple);
            let gn = g.as_ref().map(norm_term);
            let retain = matches!(op, Op::ViewRetainMatching(..));
            let in_view_and_matching = |q: &MQuad| {
                q.1 == gn && ms[0].ref_match(&q.0[0]) && ms[1].ref_match(&q.0[1]) && ms[2].ref_match(&q.0[2])
            };
            let before = m.quads.len();
            if retain {
                // only the quads of THAT graph are subject to the retention
                m.quads.retain(|q| q.1 != gn || in_view_and_matching(q));
            } else {
                m.quads.retain(|q| !in_view_and_matching(q));
            }
            let removed = before - m.quads.len();
            let mut view = D::graph_mut(d, sg.clone());
            if retain {
                view.retain_matching(ms[0].build(), ms[1].build(), ms[2].build())
                    .map_err(|e| Violation::new(o("spurious_error"), format!("{name}: view retain_matching failed: {e}")))?;
            } else {
                let got = view
                    .remove_matching(ms[0].build(), ms[1].build(), ms[2].build())
                    .map_err(|e| Violation::new(o("spurious_error"), format!("{name}: view remove_matching failed: {e}")))?;
                ensure!(
                    got == removed || !m.set,
                    o("view_remove_matching_count"),
                    "{name}: graph_mut({g:?}).remove_matching({ms:?}) returned {got}, filtering the store removes {removed}"
                );
            }
        }
        Op::ViewInsertAll(g, ts, fail_at) | Op::ViewRemoveAll(g, ts, fail_at) => {
            let sg = g.as_ref().map(MTerm::to_simple);
            let inserting = matches!(op, Op::ViewInsertAll(..));
            let mut effective = 0usize;
            let mut want_err: Option<&'static str> = None;
            for (i, t) in ts.iter().enumerate() {
                if *fail_at == Some(i) {
                    want_err = Some("source");
                    break;
                }
                let q = (t.clone(), g.clone());
                if inserting {
                    let before = m.clone();
                    match m.insert(&q) {
                        Ok(true) => effective += 1,
                        Ok(false) => {}
                        Err(()) => {
                            let idx = m.index.clone();
                            *m = before;
                            m.index = idx;
                            want_err = Some("sink");
                            break;
                        }
                    }
                } else if m.remove(&q) {
                    effective += 1;
                }
            }
            if want_err.is_none() && *fail_at == Some(ts.len()) {
                want_err = Some("source");
            }
            let quads: Vec<MQuad> = ts.iter().map(|t| (t.clone(), None)).collect();
            let src = faulty(&quads, *fail_at).map(|r| r.map(|q| q.0));
            let mut view = D::graph_mut(d, sg.clone());
            let res = if inserting { view.insert_all(src) } else { view.remove_all(src) };
            match (res, want_err) {
                (Ok(c), None) => ensure!(
                    c == effective || !m.set,
                    o("view_bulk_count"),
                    "{name}: graph_mut({g:?}).{} returned {c}, {effective} changes were effective",
                    op.name()
                ),
                (Err(StreamError::SourceError(_)), Some("source")) => {
                    ctx.fault("source_error_in_bulk_op");
                    ctx.fault_in_op = true;
                }
                (Err(StreamError::SinkError(e)), Some("sink")) => {
                    ensure!(is_index_full(&e), o("error_identity"), "{name}: expected TermIndexFullError, got {e}");
                    ctx.fault("term_index_full_in_bulk_op");
                    ctx.fault_in_op = true;
                }
                (other, want) => {
                    return Err(Violation::new(
                        o("bulk_outcome"),
                        format!("{name}: graph_mut({g:?}).{} returned ok={} but the reference expects {want:?}", op.name(), other.is_ok()),
                    ));
                }
            }
        }
        _ => panic!("ORACLE: not a single-graph view operation"),
    }
    check_content(name, d, m, op.name())
}

// ---------------------------------------------------------------------------------------------
// graphs: the same operations through GraphAsDataset (which is itself a subject of C11) would
// hide the graph API; so graphs get their own, smaller, step function

fn gcontent<G: Graph>(g: &G) -> Vec<MTriple> {
    g.triples()
        .map(|t| norm_quad(&(triple_from(t.unwrap_or_else(|_| panic!("ORACLE: triples() yielded an error"))), None)).0)
        .collect()
}

fn step_graph<G>(ctx: &mut Ctx, name: &str, g: &mut G, m: &mut Model, op: &Op, pool: &TermPool, views: bool) -> Verdict
where
    G: MutableGraph,
    G::MutationError: From<G::Error>,
{
    let o = |n: &str| format!("{n}/{name}");
    let tri = |q: &MQuad| q.0.clone();
    match op {
        Op::Insert(q0) => {
            let q = (tri(q0), None);
            let st = triple_to_simple(&q.0);
            let before = m.clone();
            let want = m.insert(&q);
            let got = g.insert(&st[0], &st[1], &st[2]);
            match (got, want) {
                (Ok(f), Ok(w)) => ensure!(f == w || !m.set, o("insert_flag"), "{name}: insert returned {f}, reference {w}"),
                (Err(e), Err(())) => {
                    ensure!(is_index_full(&e), o("insert_error"), "{name}: expected TermIndexFullError, got {e}");
                    ctx.fault("term_index_full");
                    ctx.fault_in_op = true;
                    let idx = m.index.clone();
                    *m = before;
                    m.index = idx;
                }
                (Ok(f), Err(())) => return Err(Violation::new(o("index_full_not_reported"), format!("{name}: insert returned Ok({f}) with a full index"))),
                (Err(e), Ok(_)) => return Err(Violation::new(o("spurious_error"), format!("{name}: insert failed: {e}"))),
            }
        }
        Op::Remove(q) => {
            let q = (tri(q), None);
            let st = triple_to_simple(&q.0);
            let want = m.remove(&q);
            let got = g.remove(&st[0], &st[1], &st[2]).map_err(|e| Violation::new(o("spurious_error"), format!("{name}: remove failed: {e}")))?;
            ensure!(got == want || !m.set, o("remove_flag"), "{name}: remove returned {got}, reference {want}");
        }
        Op::InsertAll(qs, fail_at) => {
            let mut effective = 0usize;
            let mut want_err: Option<&'static str> = None;
            for (i, q) in qs.iter().enumerate() {
                if *fail_at == Some(i) {
                    want_err = Some("source");
                    break;
                }
                let before = m.clone();
                match m.insert(&(tri(q), None)) {
                    Ok(true) => effective += 1,
                    Ok(false) => {}
                    Err(()) => {
                        let idx = m.index.clone();
                        *m = before;
                        m.index = idx;
                        want_err = Some("sink");
                        break;
                    }
                }
            }
            if want_err.is_none() && *fail_at == Some(qs.len()) {
                want_err = Some("source");
            }
            let src = faulty(qs, *fail_at).map(|r| r.map(|q| q.0));
            match (g.insert_all(src), want_err) {
                (Ok(c), None) => ensure!(c == effective || !m.set, o("insert_all_count"), "{name}: insert_all returned {c}, {effective} insertions were effective"),
                (Err(StreamError::SourceError(_)), Some("source")) => {
                    ctx.fault("source_error_in_bulk_op");
                    ctx.fault_in_op = true;
                }
                (Err(StreamError::SinkError(e)), Some("sink")) => {
                    ensure!(is_index_full(&e), o("error_identity"), "{name}: expected TermIndexFullError, got {e}");
                    ctx.fault("term_index_full_in_bulk_op");
                    ctx.fault_in_op = true;
                }
                (other, want) => {
                    return Err(Violation::new(o("bulk_outcome"), format!("{name}: insert_all returned ok={} but the reference expects {want:?}", other.is_ok())));
                }
            }
        }
        Op::RemoveAll(qs, fail_at) => {
            let mut effective = 0usize;
            let mut want_err = false;
            for (i, q) in qs.iter().enumerate() {
                if *fail_at == Some(i) {
                    want_err = true;
                    break;
                }
                if m.remove(&(tri(q), None)) {
                    effective += 1;
                }
            }
            if !want_err && *fail_at == Some(qs.len()) {
                want_err = true;
            }
            let src = faulty(qs, *fail_at).map(|r| r.map(|q| q.0));
            match g.remove_all(src) {
                Ok(c) => {
                    ensure!(!want_err, o("bulk_outcome"), "{name}: remove_all returned Ok although the source failed");
                    ensure!(c == effective || !m.set, o("remove_all_count"), "{name}: remove_all returned {c}, {effective} removals were effective");
                }
                Err(StreamError::SourceError(_)) => {
                    ensure!(want_err, o("bulk_outcome"), "{name}: unexpected source error");
                    ctx.fault("source_error_in_bulk_op");
                    ctx.fault_in_op = true;
                }
                Err(StreamError::SinkError(e)) => return Err(Violation::new(o("spurious_error"), format!("{name}: remove_all failed: {e}"))),
            }
        }
        Op::RemoveMatching(ms, _) => {
            let before = m.quads.len();
            m.quads.retain(|q| !(ms[0].ref_match(&q.0[0]) && ms[1].ref_match(&q.0[1]) && ms[2].ref_match(&q.0[2])));
            let removed = before - m.quads.len();
            let got = g
                .remove_matching(ms[0].build(), ms[1].build(), ms[2].build())
                .map_err(|e| Violation::new(o("spurious_error"), format!("{name}: remove_matching failed: {e}")))?;
            if m.set {
                ensure!(got == removed, o("remove_matching_count"), "{name}: remove_matching returned {got}, the reference removed {removed}");
            }
        }
        Op::RetainMatching(ms, _) => {
            m.quads.retain(|q| ms[0].ref_match(&q.0[0]) && ms[1].ref_match(&q.0[1]) && ms[2].ref_match(&q.0[2]));
            g.retain_matching(ms[0].build(), ms[1].build(), ms[2].build())
                .map_err(|e| Violation::new(o("spurious_error"), format!("{name}: retain_matching failed: {e}")))?;
        }
        Op::Matching(ms, _) | Op::ViewMatching(_, ms) | Op::UnionMatching(ms) | Op::PartialUnion(_, ms) if !views => {
            let dm = [ms[0].build(), ms[1].build(), ms[2].build()];
            for (spec, built) in ms.iter().zip(dm.iter()) {
                check_constant_contract(ctx, spec, built, pool)?;
            }
            let mut want: Vec<MTriple> = m
                .quads
                .iter()
                .filter(|q| ms[0].ref_match(&q.0[0]) && ms[1].ref_match(&q.0[1]) && ms[2].ref_match(&q.0[2]))
                .map(|q| q.0.clone())
                .collect();
            want.sort();
            let [a, b, c] = dm;
            let mut got: Vec<MTriple> = g
                .triples_matching(a, b, c)
                .map(|t| norm_quad(&(triple_from(t.unwrap_or_else(|_| panic!("ORACLE: triples_matching yielded an error"))), None)).0)
                .collect();
            got.sort();
            if !want.is_empty() {
                ctx.probe("pattern_query_nonempty");
            }
            ensure!(got == want, o("pattern_query"), "{name}: triples_matching({ms:?}) returned {} triples, filtering the reference gives {}", got.len(), want.len());
        }
        Op::Contains(q) => {
            let st = triple_to_simple(&q.0);
            let got = g.contains(&st[0], &st[1], &st[2]).unwrap_or_else(|_| panic!("ORACLE: contains failed"));
            let want = m.contains(&norm_quad(&(tri(q), None)));
            ensure!(got == want, o("contains"), "{name}: contains = {got}, reference {want}");
        }
        // ---------------- C11: a graph viewed as a dataset
        Op::ViewTriples(_) | Op::UnionTriples => {
            let got = sorted(content(&g.as_dataset()));
            ensure!(
                got == m.sorted(),
                o("graph_as_dataset_content"),
                "{name}: as_dataset().quads() shows {} quads, the graph holds {} triples (all must be in the default graph)",
                got.len(),
                m.quads.len()
            );
        }
        Op::ViewMatching(gname, ms) | Op::PartialUnion(GSpec::Arr1(gname), ms) => {
            let gs = GSpec::Arr1(gname.clone());
            let want = sorted(m.quads.iter().filter(|q| matches_ref(ms, &gs, q)).cloned().collect());
            let view = g.as_dataset();
            let got: Vec<MQuad> = view
                .quads_matching(ms[0].build(), ms[1].build(), ms[2].build(), gs.build())
                .map(|q| norm_quad(&quad_from(q.unwrap_or_else(|_| panic!("ORACLE: as_dataset quads_matching failed")))))
                .collect();
            ensure!(sorted(got.clone()) == want, o("graph_as_dataset_query"), "{name}: as_dataset().quads_matching(.., [{gname:?}]) returned {} quads, expected {}", got.len(), want.len());
        }
        Op::PartialUnion(gs, ms) | Op::Matching(ms, gs) => {
            let want = sorted(m.quads.iter().filter(|q| matches_ref(ms, gs, q)).cloned().collect());
            let view = g.as_dataset();
            let got: Vec<MQuad> = view
                .quads_matching(ms[0].build(), ms[1].build(), ms[2].build(), gs.build())
                .map(|q| norm_quad(&quad_from(q.unwrap_or_else(|_| panic!("ORACLE: as_dataset quads_matching failed")))))
                .collect();
            ensure!(sorted(got.clone()) == want, o("graph_as_dataset_query"), "{name}: as_dataset().quads_matching({ms:?}, {gs:?}) returned {} quads, expected {}", got.len(), want.len());
        }
        Op::ViewContains(gname, t) => {
            let st = triple_to_simple(t);
            let sg = gname.as_ref().map(MTerm::to_simple);
            let want = gname.is_none() && m.contains(&norm_quad(&(t.clone(), None)));
            let got = g.as_dataset().contains(&st[0], &st[1], &st[2], sg.as_ref()).unwrap_or_else(|_| panic!("ORACLE: as_dataset contains failed"));
            ensure!(got == want, o("graph_as_dataset_contains"), "{name}: as_dataset().contains(.., {gname:?}) = {got}, expected {want}");
        }
        Op::ViewInsert(gname, t) => {
            let st = triple_to_simple(t);
            let sg = gname.as_ref().map(MTerm::to_simple);
            let mut view = g.as_dataset_mut();
            let got = view.insert(&st[0], &st[1], &st[2], sg.as_ref());
            if gname.is_some() {
                ensure!(got.is_err(), o("graph_as_dataset_named_insert"), "{name}: as_dataset_mut().insert into named graph {gname:?} returned {got:?}, the documented outcome is an OnlyDefaultGraph error");
                ctx.probe("graph_as_dataset_named_insert_refused");
            } else {
                let before = m.clone();
                match (got, m.insert(&(t.clone(), None))) {
                    (Ok(f), Ok(w)) => ensure!(f == w || !m.set, o("view_insert_flag"), "{name}: as_dataset_mut().insert returned {f}, the direct operation would return {w}"),
                    (Err(_), Err(())) => {
                        ctx.fault("term_index_full");
                        ctx.fault_in_op = true;
                        let idx = m.index.clone();
                        *m = before;
                        m.index = idx;
                    }
                    (a, b) => return Err(Violation::new(o("bulk_outcome"), format!("{name}: as_dataset_mut().insert gave ok={} but the reference ok={}", a.is_ok(), b.is_ok()))),
                }
            }
        }
        Op::ViewRemove(gname, t) => {
            let st = triple_to_simple(t);
            let sg = gname.as_ref().map(MTerm::to_simple);
            let want = if gname.is_none() { m.remove(&(t.clone(), None)) } else { false };
            let got = g
                .as_dataset_mut()
                .remove(&st[0], &st[1], &st[2], sg.as_ref())
                .map_err(|e| Violation::new(o("spurious_error"), format!("{name}: as_dataset_mut().remove failed: {e}")))?;
            ensure!(
                got == want || (!m.set && gname.is_none()),
                o("view_remove_flag"),
                "{name}: as_dataset_mut().remove(.., {gname:?}) returned {got}, the direct operation would return {want}"
            );
        }
        // GraphAsDataset offers remove_matching / retain_matching only when its error type converts
        // from the graph's (not expressible generically): not driven on the graph side
        Op::ViewRemoveMatching(..) | Op::ViewRetainMatching(..) => {}
        Op::ViewInsertAll(gname, ts, fail_at) | Op::ViewRemoveAll(gname, ts, fail_at) => {
            // bulk mutation through as_dataset_mut(): every other quad names the graph `gname`
            // (refused on insertion, ignored on removal when it is not the default graph)
            let inserting = matches!(op, Op::ViewInsertAll(..));
            let quads: Vec<MQuad> = ts
                .iter()
                .enumerate()
                .map(|(i, t)| (t.clone(), if i % 2 == 1 { gname.clone() } else { None }))
                .collect();
            let mut effective = 0usize;
            let mut want: Option<&'static str> = None;
            for (i, q) in quads.iter().enumerate() {
                if *fail_at == Some(i) {
                    want = Some("source");
                    break;
                }
                if inserting {
                    if q.1.is_some() {
                        want = Some("sink"); // OnlyDefaultGraph
                        break;
                    }
                    let before = m.clone();
                    match m.insert(q) {
                        Ok(true) => effective += 1,
                        Ok(false) => {}
                        Err(()) => {
                            let idx = m.index.clone();
                            *m = before;
                            m.index = idx;
                            want = Some("sink");
                            break;
                        }
                    }
                } else if q.1.is_none() && m.remove(q) {
                    effective += 1;
                }
            }
            if want.is_none() && *fail_at == Some(quads.len()) {
                want = Some("source");
            }
            let src = faulty(&quads, *fail_at);
            let mut view = g.as_dataset_mut();
            let res = if inserting { view.insert_all(src) } else { view.remove_all(src) };
            match (&res, want) {
                (Ok(c), None) => ensure!(
                    *c == effective || !m.set,
                    o("view_bulk_count"),
                    "{name}: as_dataset_mut().{} over {} quads (odd ones in graph {gname:?}) returned {c}, per-quad semantics give {effective}",
                    op.name(),
                    quads.len()
                ),
                (Err(StreamError::SourceError(_)), Some("source")) => {
                    ctx.fault("source_error_in_bulk_op");
                    ctx.fault_in_op = true;
                }
                (Err(StreamError::SinkError(_)), Some("sink")) => {
                    ctx.probe("graph_as_dataset_bulk_insert_refused_named_graph");
                }
                _ => {
                    return Err(Violation::new(
                        o("view_bulk_outcome"),
                        format!(
                            "{name}: as_dataset_mut().{} over {} quads (odd ones in graph {gname:?}) returned {}, per-quad semantics expect {want:?}",
                            op.name(),
                            quads.len(),
                            match &res {
                                Ok(c) => format!("Ok({c})"),
                                Err(StreamError::SourceError(_)) => "SourceError".to_string(),
                                Err(StreamError::SinkError(e)) => format!("SinkError({e})"),
                            }
                        ),
                    ));
                }
            }
        }
        Op::Terms | Op::UnionMatching(_) => {}
        Op::Collect(..) => panic!("ORACLE: collect goes through step_graph_collect"),
    }
    let got = {
        let mut v = gcontent(g);
        v.sort();
        v
    };
    let want: Vec<MTriple> = {
        let mut v: Vec<MTriple> = m.quads.iter().map(|q| q.0.clone()).collect();
        v.sort();
        v
    };
    ensure!(
        got == want,
        format!("content_mismatch/{name}"),
        "{name} after {}: graph holds {} triples, the reference {} holds {}:{}\n  vs{}",
        op.name(),
        got.len(),
        if m.set { "set" } else { "list" },
        want.len(),
        fmt_list(&got.iter().map(|t| (t.clone(), None)).collect::<Vec<_>>()),
        fmt_list(&want.iter().map(|t| (t.clone(), None)).collect::<Vec<_>>())
    );
    Ok(())
}

// ---------------------------------------------------------------------------------------------
// the lock-step store sets

macro_rules! stores {
    ($sname:ident { $( $field:ident : $ty:ty = ($label:expr, $set:expr, $cap:expr) ),* $(,)? }) => {
        #[derive(Default)]
        pub struct $sname {
            $( pub $field: $ty, )*
        }
        impl $sname {
            pub fn models() -> Vec<Model> {
                vec![ $( Model::new($set, $cap), )* ]
            }
            pub fn labels() -> Vec<&'static str> {
                vec![ $( $label, )* ]
            }
        }
    };
}

stores!(DsStores {
    fast: sophia_inmem::dataset::FastDataset = ("FastDataset", true, Some(u32::MAX as usize)),
    light: sophia_inmem::dataset::LightDataset = ("LightDataset", true, Some(u32::MAX as usize)),
    sfast: sophia_inmem::dataset::small::FastDataset = ("small::FastDataset", true, Some(u16::MAX as usize)),
    slight: sophia_inmem::dataset::small::LightDataset = ("small::LightDataset", true, Some(u16::MAX as usize)),
    tfast6: GenericFastDataset<TI<6>> = ("FastDataset<TinyIdx<6>>", true, Some(6)),
    tlight11: GenericLightDataset<TI<11>> = ("LightDataset<TinyIdx<11>>", true, Some(11)),
    tfast19: GenericFastDataset<TI<19>> = ("FastDataset<TinyIdx<19>>", true, Some(19)),
    tlight33: GenericLightDataset<TI<33>> = ("LightDataset<TinyIdx<33>>", true, Some(33)),
    vspog: Vec<Spog<ST>> = ("Vec<Spog>", false, None),
    vgspo: Vec<Gspo<ST>> = ("Vec<Gspo>", false, None),
    hspog: HashSet<Spog<ST>> = ("HashSet<Spog>", true, None),
    hgspo: HashSet<Gspo<ST>> = ("HashSet<Gspo>", true, None),
    bspog: BTreeSet<Spog<ST>> = ("BTreeSet<Spog>", true, None),
    bgspo: BTreeSet<Gspo<ST>> = ("BTreeSet<Gspo>", true, None),
});

stores!(GStores {
    fast: sophia_inmem::graph::FastGraph = ("FastGraph", true, Some(u32::MAX as usize)),
    light: sophia_inmem::graph::LightGraph = ("LightGraph", true, Some(u32::MAX as usize)),
    sfast: sophia_inmem::graph::small::FastGraph = ("small::FastGraph", true, Some(u16::MAX as usize)),
    slight: sophia_inmem::graph::small::LightGraph = ("small::LightGraph", true, Some(u16::MAX as usize)),
    tfast5: GenericFastGraph<TI<5>> = ("FastGraph<TinyIdx<5>>", true, Some(5)),
    tlight9: GenericLightGraph<TI<9>> = ("LightGraph<TinyIdx<9>>", true, Some(9)),
    tfast16: GenericFastGraph<TI<16>> = ("FastGraph<TinyIdx<16>>", true, Some(16)),
    tlight28: GenericLightGraph<TI<28>> = ("LightGraph<TinyIdx<28>>", true, Some(28)),
    vec: Vec<[ST; 3]> = ("Vec<[T;3]>", false, None),
    hash: HashSet<[ST; 3]> = ("HashSet<[T;3]>", true, None),
    btree: BTreeSet<[ST; 3]> = ("BTreeSet<[T;3]>", true, None),
});

fn step_all_ds(ctx: &mut Ctx, s: &mut DsStores, models: &mut [Model], op: &Op, pool: &TermPool, via_ref: bool) -> Verdict {
    let labels = DsStores::labels();
    let single_view = matches!(
        op,
        Op::ViewTriples(_) | Op::ViewMatching(..) | Op::ViewContains(..) | Op::ViewInsert(..) | Op::ViewRemove(..)
            | Op::ViewRemoveMatching(..) | Op::ViewRetainMatching(..) | Op::ViewInsertAll(..) | Op::ViewRemoveAll(..)
    );
    macro_rules! go {
        ($i:expr, $f:ident) => {
            if single_view {
                step_ds_view(ctx, labels[$i], &mut s.$f, &mut models[$i], op)?;
            } else if matches!(op, Op::Terms) {
                step_ds_terms(labels[$i], &s.$f, &models[$i], op)?;
            } else if matches!(op, Op::Collect(..)) {
                step_ds_collect(ctx, labels[$i], &mut s.$f, &mut models[$i], op)?;
            } else if via_ref {
                // the `&mut T` forwarding implementation
                let mut r = &mut s.$f;
                step_ds(ctx, labels[$i], &mut r, &mut models[$i], op, pool)?;
            } else {
                step_ds(ctx, labels[$i], &mut s.$f, &mut models[$i], op, pool)?;
            }
        };
    }
    go!(0, fast);
    go!(1, light);
    go!(2, sfast);
    go!(3, slight);
    go!(4, tfast6);
    go!(5, tlight11);
    go!(6, tfast19);
    go!(7, tlight33);
    go!(8, vspog);
    go!(9, vgspo);
    go!(10, hspog);
    go!(11, hgspo);
    go!(12, bspog);
    go!(13, bgspo);
    Ok(())
}

fn step_all_g(ctx: &mut Ctx, s: &mut GStores, models: &mut [Model], op: &Op, pool: &TermPool, via_ref: bool, views: bool) -> Verdict {
    let labels = GStores::labels();
    macro_rules! go {
        ($i:expr, $f:ident) => {
            if matches!(op, Op::Collect(..)) {
                step_graph_collect(ctx, labels[$i], &mut s.$f, &mut models[$i], op)?;
            } else if via_ref {
                let mut r = &mut s.$f;
                step_graph(ctx, labels[$i], &mut r, &mut models[$i], op, pool, views)?;
            } else {
                step_graph(ctx, labels[$i], &mut s.$f, &mut models[$i], op, pool, views)?;
            }
        };
    }
    go!(0, fast);
    go!(1, light);
    go!(2, sfast);
    go!(3, slight);
    go!(4, tfast5);
    go!(5, tlight9);
    go!(6, tfast16);
    go!(7, tlight28);
    go!(8, vec);
    go!(9, hash);
    go!(10, btree);
    Ok(())
}

// ---------------------------------------------------------------------------------------------
// drawing a history

pub fn make_pool(ctx: &mut Ctx) -> (Alphabet, Profile, TermPool) {
    let mut p = Profile::generalized();
    p.max_bnodes = 3;
    let a = Alphabet::draw(&mut ctx.tape, &p);
    let mut present: Vec<MTerm> = vec![];
    for i in &a.iris {
        present.push(MTerm::Iri(i.clone()));
    }
    for b in &a.bnodes {
        present.push(MTerm::Bnode(b.clone()));
    }
    present.extend(a.lits.iter().cloned());
    for v in &a.vars {
        present.push(MTerm::Var(v.clone()));
    }
    // case variants of language tags are the same term
    let extra: Vec<MTerm> = a
        .lits
        .iter()
        .filter_map(|l| match l {
            MTerm::Lang(x, t) => Some(MTerm::Lang(x.clone(), t.to_ascii_uppercase())),
            _ => None,
        })
        .collect();
    present.extend(extra);
    for _ in 0..2 {
        let q = a.quoted(&mut ctx.tape, &p, 1);
        present.push(q);
    }
    let absent = vec![
        MTerm::iri("http://absent.example/never"),
        MTerm::bn("never"),
        MTerm::lit("never", XSD_STRING),
        MTerm::Var("never".into()),
        MTerm::triple(MTerm::iri("http://absent.example/s"), MTerm::iri("http://absent.example/p"), MTerm::bn("never")),
    ];
    let mut datatypes: Vec<String> = vec![XSD_STRING.to_string(), RDF_LANGSTRING.to_string()];
    let mut tags: Vec<String> = vec!["en".into(), "EN-us".into()];
    for l in &a.lits {
        match l {
            MTerm::Lit(_, d) => datatypes.push(d.clone()),
            MTerm::Lang(_, t) => tags.push(t.clone()),
            _ => {}
        }
    }
    (
        a,
        p,
        TermPool {
            present,
            absent,
            datatypes,
            tags,
        },
    )
}

pub fn draw_quad_pub(ctx: &mut Ctx, a: &Alphabet, p: &Profile, pool: &TermPool) -> MQuad {
    draw_quad(ctx, a, p, pool)
}

fn draw_quad(ctx: &mut Ctx, a: &Alphabet, p: &Profile, pool: &TermPool) -> MQuad {
    if ctx.tape.chance(1, 6) {
        // positions filled from the flat pool (incl. quoted triples, case variants, absent terms)
        (
            [pool.term(&mut ctx.tape), pool.term(&mut ctx.tape), pool.term(&mut ctx.tape)],
            draw_gname(&mut ctx.tape, pool, &a.graphs),
        )
    } else {
        a.quad(&mut ctx.tape, p)
    }
}

fn draw_ms(ctx: &mut Ctx, pool: &TermPool) -> [MSpec; 3] {
    [
        draw_mspec(&mut ctx.tape, pool, 0),
        draw_mspec(&mut ctx.tape, pool, 0),
        draw_mspec(&mut ctx.tape, pool, 0),
    ]
}

fn draw_op(ctx: &mut Ctx, a: &Alphabet, p: &Profile, pool: &TermPool, views: bool) -> Op {
    let k = if views { ctx.tape.draw(22) } else { ctx.tape.draw(14) };
    match k {
        0..=3 => Op::Insert(draw_quad(ctx, a, p, pool)),
        4 | 5 => Op::Remove(draw_quad(ctx, a, p, pool)),
        6 => {
            let n = ctx.tape.below(6);
            let qs: Vec<MQuad> = (0..n).map(|_| draw_quad(ctx, a, p, pool)).collect();
            let fail = if ctx.tape.chance(1, 3) { Some(ctx.tape.below(n + 1)) } else { None };
            if ctx.tape.chance(1, 4) {
                Op::Collect(qs, fail)
            } else {
                Op::InsertAll(qs, fail)
            }
        }
        7 => {
            let n = ctx.tape.below(6);
            let qs: Vec<MQuad> = (0..n).map(|_| draw_quad(ctx, a, p, pool)).collect();
            let fail = if ctx.tape.chance(1, 3) { Some(ctx.tape.below(n + 1)) } else { None };
            Op::RemoveAll(qs, fail)
        }
        8 => Op::RemoveMatching(draw_ms(ctx, pool), draw_gspec(&mut ctx.tape, pool, &a.graphs, 0)),
        9 => Op::RetainMatching(draw_ms(ctx, pool), draw_gspec(&mut ctx.tape, pool, &a.graphs, 0)),
        10 | 11 => Op::Matching(draw_ms(ctx, pool), draw_gspec(&mut ctx.tape, pool, &a.graphs, 0)),
        12 => Op::Contains(draw_quad(ctx, a, p, pool)),
        13 => Op::Terms,
        14 => Op::ViewTriples(draw_gname(&mut ctx.tape, pool, &a.graphs)),
        15 => Op::ViewMatching(draw_gname(&mut ctx.tape, pool, &a.graphs), draw_ms(ctx, pool)),
        16 => Op::ViewContains(draw_gname(&mut ctx.tape, pool, &a.graphs), draw_quad(ctx, a, p, pool).0),
        17 => Op::ViewInsert(draw_gname(&mut ctx.tape, pool, &a.graphs), draw_quad(ctx, a, p, pool).0),
        18 => match ctx.tape.draw(5) {
            0 | 1 => Op::ViewRemove(draw_gname(&mut ctx.tape, pool, &a.graphs), draw_quad(ctx, a, p, pool).0),
            2 => Op::ViewRemoveMatching(draw_gname(&mut ctx.tape, pool, &a.graphs), draw_ms(ctx, pool)),
            3 => Op::ViewRetainMatching(draw_gname(&mut ctx.tape, pool, &a.graphs), draw_ms(ctx, pool)),
            _ => {
                let n = ctx.tape.below(5);
                let ts: Vec<MTriple> = (0..n).map(|_| draw_quad(ctx, a, p, pool).0).collect();
                let fail = if ctx.tape.chance(1, 3) { Some(ctx.tape.below(n + 1)) } else { None };
                let g = draw_gname(&mut ctx.tape, pool, &a.graphs);
                if ctx.tape.flag() { Op::ViewInsertAll(g, ts, fail) } else { Op::ViewRemoveAll(g, ts, fail) }
            }
        },
        19 => Op::UnionTriples,
        20 => Op::UnionMatching(draw_ms(ctx, pool)),
        _ => Op::PartialUnion(draw_gspec(&mut ctx.tape, pool, &a.graphs, 0), draw_ms(ctx, pool)),
    }
}

fn probe_op(ctx: &mut Ctx, op: &Op) {
    ctx.probe(op.name());
    let mut shape = 0u8;
    let mut specs: Vec<&MSpec> = vec![];
    let mut gspec: Option<&GSpec> = None;
    match op {
        Op::Matching(ms, g) | Op::RemoveMatching(ms, g) | Op::RetainMatching(ms, g) | Op::PartialUnion(g, ms) => {
            specs.extend(ms.iter());
            gspec = Some(g);
        }
        Op::ViewMatching(_, ms) | Op::UnionMatching(ms) | Op::ViewRemoveMatching(_, ms) | Op::ViewRetainMatching(_, ms) => specs.extend(ms.iter()),
        _ => {}
    }
    for (i, s) in specs.iter().enumerate() {
        ctx.probe(s.kind_name());
        if !matches!(s, MSpec::Any) {
            shape |= 1 << i;
        }
    }
    if let Some(g) = gspec {
        ctx.probe(g.kind_name());
        if !matches!(g, GSpec::Any) {
            shape |= 8;
        }
    }
    if !specs.is_empty() {
        const SHAPES: [&str; 16] = [
            "shape_????", "shape_s???", "shape_?p??", "shape_sp??", "shape_??o?", "shape_s?o?", "shape_?po?", "shape_spo?",
            "shape_???g", "shape_s??g", "shape_?p?g", "shape_sp?g", "shape_??og", "shape_s?og", "shape_?pog", "shape_spog",
        ];
        ctx.probe(SHAPES[shape as usize]);
    }
}

fn run_history(ctx: &mut Ctx, views: bool) -> Verdict {
    let (a, p, pool) = make_pool(ctx);
    let graphs_mode = ctx.tape.chance(1, 3);
    let n_ops = ctx.tape.range(1, if views { 24 } else { 40 });
    ctx.sig(if graphs_mode { "graphs" } else { "datasets" });
    ctx.probe(if graphs_mode { "history_over_graph_impls" } else { "history_over_dataset_impls" });
    let mut ds = DsStores::default();
    let mut dm = DsStores::models();
    let mut gs = GStores::default();
    let mut gm = GStores::models();
    for step in 0..n_ops {
        let mut op = draw_op(ctx, &a, &p, &pool, views);
        // anchor some operations on what the stores hold (reference of the first, never-full
        // implementation): the same triple in one more graph; fully constant s p o patterns
        // of a present triple (each bound/unbound shape is served by its own code path, and
        // the all-constant ones only matter when they hit)
        if !graphs_mode && !dm[0].quads.is_empty() && ctx.tape.chance(1, 4) {
            let present = dm[0].quads[ctx.tape.below(dm[0].quads.len())].clone();
            let consts = || [MSpec::One(present.0[0].clone()), MSpec::One(present.0[1].clone()), MSpec::One(present.0[2].clone())];
            match &mut op {
                Op::Insert(q) => q.0 = present.0.clone(),
                Op::PartialUnion(_, ms) | Op::Matching(ms, _) | Op::UnionMatching(ms) | Op::ViewMatching(_, ms) => *ms = consts(),
                Op::RemoveMatching(ms, _) if ctx.tape.flag() => *ms = consts(),
                _ => {}
            }
        }
        let via_ref = ctx.tape.chance(1, 4);
        ctx.ops += 1;
        ctx.sig(op.name());
        probe_op(ctx, &op);
        ev!(ctx, "op {step}: {op:?}{}", if via_ref { " (through &mut T)" } else { "" });
        ctx.sample(|| format!("op {step}: {op:?}"));
        if graphs_mode {
            step_all_g(ctx, &mut gs, &mut gm, &op, &pool, via_ref, views)?;
        } else {
            step_all_ds(ctx, &mut ds, &mut dm, &op, &pool, via_ref)?;
        }
    }
    // cross-implementation agreement is implied by agreement of each with its reference, as
    // long as the references themselves agree wherever no capacity fault interfered
    Ok(())
}


// ---------------------------------------------------------------------------------------------
// the real 16-bit boundary: the shipped `small::*` types hold at most 65 535 terms

fn boundary_store<D>(ctx: &mut Ctx, name: &str, mut d: D, with_graph_name: bool) -> Verdict
where
    D: MutableDataset,
{
    let o = |n: &str| format!("{n}/{name}");
    let p = MTerm::iri("http://ex.org/p").to_simple();
    let obj = MTerm::iri("http://ex.org/o").to_simple();
    let g = MTerm::iri("http://ex.org/g").to_simple();
    let gname = if with_graph_name { Some(&g) } else { None };
    let cap = u16::MAX as usize; // index MAX is reserved for the default graph
    let fixed_terms = if with_graph_name { 3 } else { 2 };
    // leave `slack` free slots, drawn from the tape
    let slack = ctx.tape.below(3);
    let n = cap - fixed_terms - slack;
    let subj = |i: usize| MTerm::Iri(format!("http://ex.org/s/{i}")).to_simple();
    for i in 0..n {
        let r = d.insert(&subj(i), &p, &obj, gname);
        ensure!(matches!(r, Ok(true)), o("boundary_fill"), "{name}: insertion #{i} of {n} below the 16-bit boundary returned {:?}", r.map_err(|e| e.to_string()));
    }
    ctx.probe("u16_boundary_filled");
    ensure!(d.quads().count() == n, o("boundary_count"), "{name}: {} quads after {n} insertions", d.quads().count());
    // a quad needing slack+1 new terms: the first `slack` get indexed, the next one must fail
    let fresh = |k: usize| MTerm::Iri(format!("http://ex.org/fresh/{k}")).to_simple();
    let (a, b, c) = (fresh(0), fresh(1), fresh(2));
    let r = d.insert(&a, &b, &c, gname);
    match r {
        Err(e) => {
            ensure!(is_index_full(&e), o("boundary_error"), "{name}: expected TermIndexFullError at the boundary, got {e}");
            ctx.fault("term_index_full_at_u16_boundary");
            ctx.fault_in_op = true;
        }
        Ok(f) => {
            return Err(Violation::new(
                o("index_full_not_reported"),
                format!("{name}: inserting a quad with 3 new terms with {slack} free slots of 65535 returned Ok({f})"),
            ));
        }
    }
    // the failed insertion left the content unchanged
    ensure!(d.quads().count() == n, o("boundary_atomicity"), "{name}: {} quads after a failed insertion, expected {n}", d.quads().count());
    ensure!(
        !d.contains(&a, &b, &c, gname).unwrap_or(true),
        o("boundary_atomicity"),
        "{name}: the quad whose insertion failed is reported as contained"
    );
    // every position of a 3-new-terms quad: terms indexed before the failing one stay usable
    if slack >= 1 {
        let r = d.insert(&a, &p, &obj, gname);
        ensure!(matches!(r, Ok(true)), o("boundary_reuse"), "{name}: a term indexed by a failed insertion could not be reused: {:?}", r.map_err(|e| e.to_string()));
        ctx.probe("u16_boundary_partial_terms_reused");
        let r = d.remove(&a, &p, &obj, gname);
        ensure!(matches!(r, Ok(true)), o("boundary_reuse"), "{name}: remove after reuse returned {:?}", r.map_err(|e| e.to_string()));
    }
    // existing terms in new combinations still work, removal works, queries still right
    let r = d.insert(&subj(0), &p, &subj(1), gname);
    ensure!(matches!(r, Ok(true)), o("boundary_existing_terms"), "{name}: inserting a new quad made of indexed terms at the boundary returned {:?}", r.map_err(|e| e.to_string()));
    let k = ctx.tape.below(n);
    let hits = d.quads_matching([&subj(k)], sophia_api::term::matcher::Any, sophia_api::term::matcher::Any, sophia_api::term::matcher::Any).count();
    ensure!(hits == if k == 0 { 2 } else { 1 }, o("boundary_query"), "{name}: pattern query for subject #{k} returned {hits} quads");
    let r = d.remove(&subj(k), &p, &obj, gname);
    ensure!(matches!(r, Ok(true)), o("boundary_remove"), "{name}: remove of quad #{k} returned {:?}", r.map_err(|e| e.to_string()));
    ensure!(d.quads().count() == n, o("boundary_count"), "{name}: {} quads at the end, expected {n}", d.quads().count());
    // the last index issued is 65534; no term may have received the reserved index
    let last = d.quads_matching([&subj(n - 1)], sophia_api::term::matcher::Any, sophia_api::term::matcher::Any, sophia_api::term::matcher::Any).count();
    ensure!(last == 1, o("boundary_query"), "{name}: the last term below the boundary is not found ({last} hits)");
    if !with_graph_name {
        let named = d.quads_matching(sophia_api::term::matcher::Any, sophia_api::term::matcher::Any, sophia_api::term::matcher::Any, sophia_api::term::matcher::Not([None::<&ST>])).count();
        ensure!(named == 0, o("boundary_default_graph"), "{name}: {named} quads appear in a named graph although all were inserted in the default graph (reserved index issued to a term?)");
    }
    Ok(())
}

fn run_boundary(ctx: &mut Ctx) -> Verdict {
    ctx.sig("u16_boundary");
    ctx.ops += 8;
    let which = ctx.tape.below(6);
    ev!(ctx, "u16 boundary run, store {which}");
    ctx.sample(|| format!("u16 boundary run on store {which}: fill the 16-bit term index, then fail / reuse / query / remove at the boundary"));
    simcore::driver::set_death_note("u16 boundary run");
    match which {
        0 => boundary_store(ctx, "small::FastDataset", sophia_inmem::dataset::small::FastDataset::new(), false),
        1 => boundary_store(ctx, "small::LightDataset", sophia_inmem::dataset::small::LightDataset::new(), false),
        2 => boundary_store(ctx, "small::FastDataset(named)", sophia_inmem::dataset::small::FastDataset::new(), true),
        3 => boundary_store(ctx, "small::LightDataset(named)", sophia_inmem::dataset::small::LightDataset::new(), true),
        4 => boundary_store(ctx, "small::FastGraph", sophia_api::dataset::adapter::GraphAsDataset::new(sophia_inmem::graph::small::FastGraph::new()), false),
        _ => boundary_store(ctx, "small::LightGraph", sophia_api::dataset::adapter::GraphAsDataset::new(sophia_inmem::graph::small::LightGraph::new()), false),
    }
}

fn run_c01(ctx: &mut Ctx) -> Verdict {
    // about 1 run in 1500 drives the real 65 535-term boundary of the shipped small::* types
    if ctx.tape.draw(1500) == 1499 {
        return run_boundary(ctx);
    }
    run_history(ctx, false)
}

fn run_c11(ctx: &mut Ctx) -> Verdict {
    run_history(ctx, true)
}

fn warmup() {
    let mut ctx = Ctx::new(simcore::Tape::record(7), false);
    for _ in 0..10 {
        let _ = run_history(&mut ctx, true);
    }
}

const STORE_REAL: &[&str] = &[
    "sophia_inmem::{GenericFastDataset, GenericLightDataset, GenericFastGraph, GenericLightGraph} over SimpleTermIndex<u32|u16|TinyIdx>",
    "sophia_inmem::{dataset,graph}::_iter (matching iterators)",
    "sophia_api::{dataset,graph}::_foreign_impl (Vec, HashSet, BTreeSet, &mut T)",
    "default methods of Dataset/Graph/MutableDataset/MutableGraph",
    "every matcher type of sophia_api::term::matcher (through DynMatcher delegation)",
    "sophia_api::{graph::adapter, dataset::adapter} (DatasetGraph, UnionGraph, PartialUnionGraph, GraphAsDataset)",
];
const STORE_STUBS: &[&str] = &[
    "TinyIdx<N> (Index impl with small MAX: makes TermIndexFullError reachable at each ensure_index call)",
    "FaultyQuads (source failing at item k inside insert_all/remove_all)",
    "getrandom interposer (HashSet iteration order from the tape)",
    "reference model (sim/store/src/main.rs Model, matchers.rs ref_match)",
];

fn main() {
    let base = |property: &'static str, tag: u64, run: fn(&mut Ctx) -> Verdict| Scenario {
        property,
        tag,
        run,
        quick_runs: 40_000,
        thorough_runs: 2_500_000,
        level: "exploration",
        rule: "one run = one operation history (<= 40 operations over a small generalized term alphabet incl. quoted triples, variables, case-variant language tags, named/blank/absent graphs) applied in lock-step to every shipped implementation, each compared with its own reference model after EVERY operation (full content, pattern queries vs filtering, returned flags/counts, term enumerations, matcher constant() contract); distinct = distinct (graphs|datasets, operation-kind sequence) signatures; non-trivial = an index-full or source fault fired inside an operation, or >= 4 operations and >= 2 probes",
        real_components: STORE_REAL,
        stub_components: STORE_STUBS,
        assumptions: &[
            "histories are sampled, not enumerated; alphabets <= 6 per kind",
            "index capacities 5..33 via TinyIdx plus the shipped u16/u32 indexes (the 65535-term boundary is driven by the dedicated C01 boundary run)",
            "Vec-backed implementations are checked as the corresponding list (insert always true, remove removes all occurrences)",
        ],
        panic_is_violation: true,
        death_is_violation: true,
        shrink_budget: 2000,
        run_timeout_s: 60,
        thorough_extra: None,
        warmup: Some(warmup),
        enumerated: None,
    };
    // `simstore miri <seed> <count>`: run C10 histories directly on the main thread (no worker
    // processes, no adversarial allocator, no hash-seed control) so that Miri can interpret
    // them and report undefined behaviour itself.
    let args: Vec<String> = std::env::args().collect();
    if args.get(1).map(String::as_str) == Some("miri") {
        let seed: u64 = args.get(2).and_then(|s| s.parse().ok()).unwrap_or(1);
        let count: u64 = args.get(3).and_then(|s| s.parse().ok()).unwrap_or(4);
        let mut bad = 0;
        for i in 0..count {
            let mut ctx = Ctx::new(simcore::Tape::record(simcore::rng::mix(seed, 0xC10, i)), false);
            let _ = ctx.tape.draw(1 << 32);
            if let Err(v) = c10::run_c10_plain(&mut ctx) {
                println!("run {i}: violation [{}] {}", v.oracle, v.msg);
                bad += 1;
            }
        }
        println!("miri batch done: {count} histories, {bad} violations");
        std::process::exit(if bad > 0 { 1 } else { 0 });
    }
    let sc = vec![
        base("C01", 0xC01, run_c01),
        base("C11", 0xC11, run_c11),
        c10::scenario(),
    ];
    simcore::main_with(&sc);
}
