//! C15 — streams deliver exactly the prefix before a failure and blame the right side.
//! One run = one pipeline instance (source x adapter chain x consumer x data); inside the run
//! the fault-free twin is executed first and then EVERY single-fault position of the source
//! and of the sink is executed and checked against the reference model (fault enumeration).

mod chains;
mod ops;

use chains::*;
use ops::*;
use simcore::ctx::{Ctx, Verdict, Violation};
use simcore::driver::Scenario;
use simcore::model::*;
use simcore::seams::*;
use simcore::{ensure, ev, violation};
use sophia_api::graph::{CollectibleGraph, Graph, MutableGraph};
use sophia_api::quad::Spog;
use sophia_api::serializer::{QuadSerializer, TripleSerializer};
use sophia_api::source::{QuadSource, StreamError, TripleSource};
use sophia_api::term::matcher::Any;
use sophia_api::term::SimpleTerm;
use sophia_inmem::graph::{GenericFastGraph, GenericLightGraph};
use sophia_inmem::index::{Index, SimpleTermIndex, TermIndexFullError};
use std::cell::Cell;
use std::collections::{BTreeSet, HashSet};
use std::rc::Rc;

simcore::install_getrandom!();

type BoxErr = Box<dyn std::error::Error + Send + Sync + 'static>;
type STriple = [SimpleTerm<'static>; 3];

const SRC_ID: u32 = 7001;
const SINK_ID: u32 = 7002;
const WRITE_ID: u32 = 7003;
const READ_ID: u32 = 7004;

// ---------------------------------------------------------------------------------------------
// tiny indexes: make "term index full" reachable after a handful of insertions

#[derive(Clone, Copy, Debug, Default, PartialEq, Eq, PartialOrd, Ord)]
pub struct TinyIdx<const M: u16>(u16);

impl<const M: u16> Index for TinyIdx<M> {
    const ZERO: Self = TinyIdx(0);
    const MAX: Self = TinyIdx(M);
    fn from_usize(other: usize) -> Self {
        TinyIdx(other.min(u16::MAX as usize) as u16)
    }
    fn into_usize(self) -> usize {
        self.0 as usize
    }
}

const TINY_CAPS: [usize; 3] = [5, 9, 14];
type FastTiny<const M: u16> = GenericFastGraph<SimpleTermIndex<TinyIdx<M>>>;
type LightTiny<const M: u16> = GenericLightGraph<SimpleTermIndex<TinyIdx<M>>>;
type FastDsTiny<const M: u16> = sophia_inmem::dataset::GenericFastDataset<SimpleTermIndex<TinyIdx<M>>>;
type LightDsTiny<const M: u16> = sophia_inmem::dataset::GenericLightDataset<SimpleTermIndex<TinyIdx<M>>>;

// ---------------------------------------------------------------------------------------------
// pipeline description

#[derive(Clone, Copy, Debug, PartialEq, Eq)]
enum SrcKind {
    Iter,
    /// a Source that hands several items to the consumer within one try_for_some_item step
    Batch,
    NtParser,
    TurtleParser,
    /// Turtle statements with object and predicate lists: several triples per parser step
    TurtleMulti,
    XmlParser,
    /// the quad-side Rio adapters (StrictRioQuadSource, GeneralizedRioSource), through to_triples()
    NqParser,
    GnqParser,
    TrigParser,
    /// documented as buffering: parses the whole document before yielding anything
    JsonLdParser,
    VecGraph,
    FastGraph,
}

#[derive(Clone, Copy, Debug, PartialEq, Eq)]
enum SrcFault {
    None,
    /// the iterator yields Err instead of proceeding to item k
    IterErr(usize),
    /// statement k of the document is syntactically broken
    Syntax(usize),
    /// the reader fails after delivering this many bytes
    Read(usize),
}

#[derive(Clone, Copy, Debug, PartialEq, Eq)]
enum Consumer {
    TryForEach,
    ForEach,
    StepTry,
    StepFor,
    CollectVec,
    CollectBTree,
    CollectHash,
    CollectFast,
    CollectLight,
    InsertVec,
    InsertBTree,
    InsertHash,
    InsertFastTiny(usize),
    InsertLightTiny(usize),
    RemoveVec,
    RemoveFast,
    /// a store whose k-th mutation fails, driven through the DEFAULT insert_all / remove_all
    InsertFlaky,
    RemoveFlaky,
    QInsertFlaky,
    QRemoveFlaky,
    SerNt,
    SerTtl,
    SerTtlPretty,
    SerXml,
    QuadsTry,
    QuadsCollect,
    SerNq,
    /// the quad side into the real indexed datasets (their own insert_all / remove_all /
    /// from_quad_source), with tiny term indexes, and into the TriG serializer
    QInsertFastTiny(usize),
    QInsertLightTiny(usize),
    QRemoveFast,
    QCollectFast,
    QCollectLight,
    SerTrig,
    SerTrigPretty,
    IterCollect,
    IterStep,
}

const CONSUMERS: &[Consumer] = &[
    Consumer::TryForEach,
    Consumer::ForEach,
    Consumer::StepTry,
    Consumer::StepFor,
    Consumer::CollectVec,
    Consumer::CollectBTree,
    Consumer::CollectHash,
    Consumer::CollectFast,
    Consumer::CollectLight,
    Consumer::InsertVec,
    Consumer::InsertBTree,
    Consumer::InsertHash,
    Consumer::InsertFastTiny(0),
    Consumer::InsertFastTiny(1),
    Consumer::InsertFastTiny(2),
    Consumer::InsertLightTiny(0),
    Consumer::InsertLightTiny(1),
    Consumer::InsertLightTiny(2),
    Consumer::RemoveVec,
    Consumer::RemoveFast,
    Consumer::InsertFlaky,
    Consumer::RemoveFlaky,
    Consumer::QInsertFlaky,
    Consumer::QRemoveFlaky,
    Consumer::SerNt,
    Consumer::SerTtl,
    Consumer::SerTtlPretty,
    Consumer::SerXml,
    Consumer::QuadsTry,
    Consumer::QuadsCollect,
    Consumer::SerNq,
    Consumer::QInsertFastTiny(0),
    Consumer::QInsertFastTiny(1),
    Consumer::QInsertFastTiny(2),
    Consumer::QInsertLightTiny(0),
    Consumer::QInsertLightTiny(2),
    Consumer::QRemoveFast,
    Consumer::QCollectFast,
    Consumer::QCollectLight,
    Consumer::SerTrig,
    Consumer::SerTrigPretty,
    Consumer::IterCollect,
    Consumer::IterStep,
];

impl Consumer {
    fn is_serializer(self) -> bool {
        matches!(
            self,
            Consumer::SerNt
                | Consumer::SerTtl
                | Consumer::SerTtlPretty
                | Consumer::SerXml
                | Consumer::SerNq
                | Consumer::SerTrig
                | Consumer::SerTrigPretty
        )
    }
    /// consumers that take quads: driven through `to_quads()` and the quad-side adapters
    fn quad_side(self) -> bool {
        matches!(
            self,
            Consumer::QuadsTry
                | Consumer::QuadsCollect
                | Consumer::SerNq
                | Consumer::QInsertFlaky
                | Consumer::QRemoveFlaky
                | Consumer::QInsertFastTiny(_)
                | Consumer::QInsertLightTiny(_)
                | Consumer::QRemoveFast
                | Consumer::QCollectFast
                | Consumer::QCollectLight
                | Consumer::SerTrig
                | Consumer::SerTrigPretty
        )
    }
    /// The triple-side consumer with the same contract: the oracle treats a dataset like the
    /// graph of its default graph (`to_quads()` only produces default-graph quads).
    fn oracle_equiv(self) -> Consumer {
        match self {
            Consumer::QInsertFastTiny(i) => Consumer::InsertFastTiny(i),
            Consumer::QInsertLightTiny(i) => Consumer::InsertLightTiny(i),
            Consumer::QRemoveFast => Consumer::RemoveFast,
            Consumer::QCollectFast => Consumer::CollectFast,
            Consumer::QCollectLight => Consumer::CollectLight,
            Consumer::SerTrig => Consumer::SerTtl,
            Consumer::SerTrigPretty => Consumer::SerTtlPretty,
            other => other,
        }
    }
    fn closure_can_fail(self) -> bool {
        matches!(
            self,
            Consumer::TryForEach
                | Consumer::StepTry
                | Consumer::QuadsTry
                | Consumer::InsertFlaky
                | Consumer::RemoveFlaky
                | Consumer::QInsertFlaky
                | Consumer::QRemoveFlaky
        )
    }
    /// documented as buffering: consumes the whole source before producing anything
    fn buffering(self) -> bool {
        matches!(self, Consumer::SerTtlPretty | Consumer::SerTrigPretty)
    }
    fn needs_iter(self) -> bool {
        matches!(self, Consumer::IterCollect | Consumer::IterStep)
    }
}

#[derive(Clone, Copy, Debug, PartialEq, Eq)]
enum SinkFault {
    None,
    /// the consumer closure fails on its j-th invocation
    Closure(usize),
    /// the writer accepts exactly this many bytes, then fails
    Write(usize),
    Flush,
}

struct Setup {
    /// hash seed for executions that run on a fresh thread (hash-order-sensitive sources)
    hs: u64,
    /// batch sizes of the Batch source
    batch: Vec<usize>,
    src: SrcKind,
    items: Vec<MTriple>,
    ops: Vec<(OpKind, u64, u8)>,
    /// adapters applied on the quad side, after `to_quads()` (quad consumers only)
    qops: Vec<(OpKind, u64, u8)>,
    consumer: Consumer,
    /// pre-existing content of the target of insert_all / remove_all
    pre: Vec<MTriple>,
    noise: Noise,
}

#[derive(Debug)]
enum Res {
    Ok,
    Source(BoxErr),
    Sink(BoxErr),
    /// error returned bare (for_each_* return S::Error itself)
    Plain(BoxErr),
}

impl Res {
    fn name(&self) -> &'static str {
        match self {
            Res::Ok => "Ok",
            Res::Source(_) => "SourceError",
            Res::Sink(_) => "SinkError",
            Res::Plain(_) => "Err(source error value)",
        }
    }
}

#[derive(Debug)]
struct Outcome {
    res: Res,
    /// every item handed to the consumer closure (including the one it failed on)
    offered: Vec<MTriple>,
    /// items the consumer accepted
    consumed: Vec<MTriple>,
    /// observable content of the target collection / graph afterwards
    state: Option<Vec<MTriple>>,
    count: Option<usize>,
    pulls: usize,
    calls: Vec<u32>,
    written: Vec<u8>,
    write_fired: bool,
    read_fired: bool,
    /// step-wise driving: Ok(false) was returned although items were still to come
    early_false: bool,
    sim_events: u64,
    /// the target store answered its own pattern queries inconsistently afterwards
    incoherent: Option<String>,
}

fn stream_res<T, E1, E2>(r: Result<T, StreamError<E1, E2>>) -> (Option<T>, Res)
where
    E1: std::error::Error + Send + Sync + 'static,
    E2: std::error::Error + Send + Sync + 'static,
{
    match r {
        Ok(t) => (Some(t), Res::Ok),
        Err(StreamError::SourceError(e)) => (None, Res::Source(Box::new(e))),
        Err(StreamError::SinkError(e)) => (None, Res::Sink(Box::new(e))),
    }
}

// ---------------------------------------------------------------------------------------------
// the faulty iterator source

struct FaultyIter {
    items: Vec<STriple>,
    pos: usize,
    fail_at: Option<usize>,
    pulls: Rc<Cell<usize>>,
}

impl Iterator for FaultyIter {
    type Item = Result<STriple, SimFault>;
    fn next(&mut self) -> Option<Self::Item> {
        self.pulls.set(self.pulls.get() + 1);
        if self.fail_at == Some(self.pos) {
            // fails once; a consumer that (wrongly) keeps pulling sees the remaining items
            self.fail_at = None;
            return Some(Err(SimFault { id: SRC_ID }));
        }
        let it = self.items.get(self.pos).cloned();
        self.pos += 1;
        it.map(Ok)
    }
    fn size_hint(&self) -> (usize, Option<usize>) {
        (0, None)
    }
}

/// A legal `Source` that delivers its items in batches (like the Turtle parser does for
/// `s p o1, o2, o3 .`): several calls of the consumer per step, and a failure that may strike
/// in the middle of a batch, after some items of that step were already delivered.
struct BatchSource {
    items: Vec<STriple>,
    pos: usize,
    sizes: Vec<usize>,
    step: usize,
    fail_at: Option<usize>,
    pulls: Rc<Cell<usize>>,
}

impl sophia_api::source::Source for BatchSource {
    type Item<'x> = STriple;
    type Error = SimFault;

    fn try_for_some_item<E, F>(&mut self, mut f: F) -> sophia_api::source::StreamResult<bool, SimFault, E>
    where
        E: std::error::Error + Send + Sync + 'static,
        F: FnMut(Self::Item<'_>) -> Result<(), E>,
    {
        self.pulls.set(self.pulls.get() + 1);
        if self.pos >= self.items.len() && self.fail_at != Some(self.pos) {
            return Ok(false);
        }
        let n = if self.sizes.is_empty() { 1 } else { self.sizes[self.step % self.sizes.len()].max(1) };
        self.step += 1;
        for _ in 0..n {
            if self.fail_at == Some(self.pos) {
                self.fail_at = None;
                return Err(StreamError::SourceError(SimFault { id: SRC_ID }));
            }
            if self.pos >= self.items.len() {
                break;
            }
            let it = self.items[self.pos].clone();
            self.pos += 1;
            f(it).map_err(StreamError::SinkError)?;
        }
        Ok(true)
    }
}

/// A set-like store whose k-th mutation (insert or remove call) fails. It implements only the
/// required methods: bulk operations go through the DEFAULT `insert_all` / `remove_all` of
/// `MutableGraph` / `MutableDataset`, which are what is under test.
#[derive(Default)]
struct Flaky {
    inner: BTreeSet<STriple>,
    fail_at: Option<usize>,
    mutations: usize,
}

impl Flaky {
    fn tick(&mut self) -> Result<(), SimFault> {
        let this = self.mutations;
        self.mutations += 1;
        if Some(this) == self.fail_at {
            Err(SimFault { id: SINK_ID })
        } else {
            Ok(())
        }
    }
}

impl Graph for Flaky {
    type Triple<'x> = [&'x SimpleTerm<'static>; 3];
    type Error = std::convert::Infallible;
    fn triples(&self) -> impl Iterator<Item = Result<Self::Triple<'_>, Self::Error>> + '_ {
        self.inner.iter().map(|t| Ok([&t[0], &t[1], &t[2]]))
    }
}

impl MutableGraph for Flaky {
    type MutationError = SimFault;
    fn insert<TS, TP, TO>(&mut self, s: TS, p: TP, o: TO) -> Result<bool, SimFault>
    where
        TS: sophia_api::term::Term,
        TP: sophia_api::term::Term,
        TO: sophia_api::term::Term,
    {
        self.tick()?;
        Ok(self.inner.insert([s.into_term(), p.into_term(), o.into_term()]))
    }
    fn remove<TS, TP, TO>(&mut self, s: TS, p: TP, o: TO) -> Result<bool, SimFault>
    where
        TS: sophia_api::term::Term,
        TP: sophia_api::term::Term,
        TO: sophia_api::term::Term,
    {
        self.tick()?;
        Ok(self.inner.remove(&[s.into_term(), p.into_term(), o.into_term()]))
    }
}

/// The same store seen as a dataset (default graph only).
#[derive(Default)]
struct FlakyDs(Flaky);

impl sophia_api::dataset::Dataset for FlakyDs {
    type Quad<'x> = Spog<&'x SimpleTerm<'static>>;
    type Error = std::convert::Infallible;
    fn quads(&self) -> impl Iterator<Item = Result<Self::Quad<'_>, Self::Error>> + '_ {
        self.0.inner.iter().map(|t| Ok(([&t[0], &t[1], &t[2]], None)))
    }
}

impl sophia_api::dataset::MutableDataset for FlakyDs {
    type MutationError = SimFault;
    fn insert<TS, TP, TO, TG>(&mut self, s: TS, p: TP, o: TO, _g: Option<TG>) -> Result<bool, SimFault>
    where
        TS: sophia_api::term::Term,
        TP: sophia_api::term::Term,
        TO: sophia_api::term::Term,
        TG: sophia_api::term::Term,
    {
        self.0.insert(s, p, o)
    }
    fn remove<TS, TP, TO, TG>(&mut self, s: TS, p: TP, o: TO, _g: Option<TG>) -> Result<bool, SimFault>
    where
        TS: sophia_api::term::Term,
        TP: sophia_api::term::Term,
        TO: sophia_api::term::Term,
        TG: sophia_api::term::Term,
    {
        self.0.remove(s, p, o)
    }
}

// ---------------------------------------------------------------------------------------------
// driving a chain with a consumer

struct Drive<'a> {
    qops: &'a [Op],
    consumer: Consumer,
    sink: SinkFault,
    pre: &'a [MTriple],
    noise: &'a Noise,
    out: &'a mut Outcome,
}

thread_local! {
    /// set by `graph_content` when the target store answers its own pattern queries inconsistently
    static INCOHERENT: std::cell::RefCell<Option<String>> = const { std::cell::RefCell::new(None) };
}

/// Content of the target store as `triples()` enumerates it. The store is also asked for every
/// member through each of the 7 other bound/unbound pattern shapes (each shape may be served
/// by another index): a member that some shape does not find, or finds more than once in a set,
/// means the consumer left the store half-updated.
fn graph_content<G: Graph>(g: &G) -> Vec<MTriple> {
    let content: Vec<MTriple> = g
        .triples()
        .map(|t| triple_from(t.unwrap_or_else(|_| panic!("ORACLE: graph iteration failed"))))
        .collect();
    let distinct: BTreeSet<&MTriple> = content.iter().collect();
    for t in &distinct {
        let st = triple_to_simple(t);
        for shape in 1u8..8 {
            let sm: Option<&SimpleTerm> = (shape & 1 != 0).then_some(&st[0]);
            let pm: Option<&SimpleTerm> = (shape & 2 != 0).then_some(&st[1]);
            let om: Option<&SimpleTerm> = (shape & 4 != 0).then_some(&st[2]);
            let found = match (sm, pm, om) {
                (Some(s), None, None) => count_eq(g.triples_matching([s], Any, Any), t),
                (None, Some(p), None) => count_eq(g.triples_matching(Any, [p], Any), t),
                (Some(s), Some(p), None) => count_eq(g.triples_matching([s], [p], Any), t),
                (None, None, Some(o)) => count_eq(g.triples_matching(Any, Any, [o]), t),
                (Some(s), None, Some(o)) => count_eq(g.triples_matching([s], Any, [o]), t),
                (None, Some(p), Some(o)) => count_eq(g.triples_matching(Any, [p], [o]), t),
                (Some(s), Some(p), Some(o)) => count_eq(g.triples_matching([s], [p], [o]), t),
                (None, None, None) => 1,
            };
            let listed = content.iter().filter(|x| x == t).count();
            if found != listed {
                INCOHERENT.with(|i| {
                    i.borrow_mut().get_or_insert_with(|| {
                        format!(
                            "triples() lists {} {listed} time(s) but the pattern query binding {}{}{} finds it {found} time(s)",
                            fmt_ts(std::slice::from_ref(*t)),
                            if shape & 1 != 0 { "s" } else { "?" },
                            if shape & 2 != 0 { "p" } else { "?" },
                            if shape & 4 != 0 { "o" } else { "?" },
                        )
                    });
                });
            }
        }
    }
    content
}

/// The same for a dataset that only ever received default-graph quads: content as `quads()`
/// lists it, and every member looked up through all 15 other bound/unbound shapes.
fn dataset_content<D: sophia_api::dataset::Dataset>(d: &D) -> Vec<MTriple> {
    use sophia_api::quad::Quad;
    let content: Vec<MTriple> = d
        .quads()
        .map(|q| {
            let q = q.unwrap_or_else(|_| panic!("ORACLE: dataset iteration failed"));
            if q.g().is_some() {
                panic!("ORACLE: to_quads() produced a named graph");
            }
            triple_from([q.s(), q.p(), q.o()])
        })
        .collect();
    let distinct: BTreeSet<&MTriple> = content.iter().collect();
    let dg: Option<&SimpleTerm> = None;
    for t in &distinct {
        let st = triple_to_simple(t);
        let listed = content.iter().filter(|x| x == t).count();
        for shape in 1u8..16 {
            let qcount = |it: &mut dyn Iterator<Item = MTriple>| it.filter(|x| &x == t).count();
            macro_rules! q {
                ($s:expr, $p:expr, $o:expr, $g:expr) => {
                    qcount(&mut d.quads_matching($s, $p, $o, $g).map(|q| {
                        let q = q.unwrap_or_else(|_| panic!("ORACLE: dataset pattern query failed"));
                        triple_from([q.s(), q.p(), q.o()])
                    }))
                };
            }
            let (s, p, o) = (&st[0], &st[1], &st[2]);
            let found = match shape {
                1 => q!([s], Any, Any, Any),
                2 => q!(Any, [p], Any, Any),
                3 => q!([s], [p], Any, Any),
                4 => q!(Any, Any, [o], Any),
                5 => q!([s], Any, [o], Any),
                6 => q!(Any, [p], [o], Any),
                7 => q!([s], [p], [o], Any),
                8 => q!(Any, Any, Any, [dg]),
                9 => q!([s], Any, Any, [dg]),
                10 => q!(Any, [p], Any, [dg]),
                11 => q!([s], [p], Any, [dg]),
                12 => q!(Any, Any, [o], [dg]),
                13 => q!([s], Any, [o], [dg]),
                14 => q!(Any, [p], [o], [dg]),
                _ => q!([s], [p], [o], [dg]),
            };
            if found != listed {
                INCOHERENT.with(|i| {
                    i.borrow_mut().get_or_insert_with(|| {
                        format!(
                            "quads() lists {} {listed} time(s) but the pattern query binding {}{}{}{} finds it {found} time(s)",
                            fmt_ts(std::slice::from_ref(*t)),
                            if shape & 1 != 0 { "s" } else { "?" },
                            if shape & 2 != 0 { "p" } else { "?" },
                            if shape & 4 != 0 { "o" } else { "?" },
                            if shape & 8 != 0 { "g" } else { "?" },
                        )
                    });
                });
            }
        }
    }
    content
}

fn count_eq<'a, I, T, E>(it: I, t: &MTriple) -> usize
where
    I: Iterator<Item = Result<T, E>> + 'a,
    T: sophia_api::triple::Triple,
{
    it.filter(|r| match r {
        Ok(x) => &triple_from([x.s(), x.p(), x.o()]) == t,
        Err(_) => panic!("ORACLE: graph pattern query failed"),
    })
    .count()
}

fn mt(t: &STriple) -> MTriple {
    triple_from([&t[0], &t[1], &t[2]])
}

fn simple(ts: &[MTriple]) -> Vec<STriple> {
    ts.iter().map(triple_to_simple).collect()
}

fn write_fault_is_transient(off: usize) -> bool {
    off % 3 == 2
}

impl Drive<'_> {
    fn wplan(&self) -> WPlan {
        let mut p = WPlan {
            noise: self.noise.clone(),
            fault_id: WRITE_ID,
            kind: Some(std::io::ErrorKind::BrokenPipe),
            ..Default::default()
        };
        match self.sink {
            SinkFault::Write(off) => {
                p.fail_at = Some(off);
                // every offset is visited, in one of three writer behaviours: sticky error,
                // "full disk" (flush stays silent), transient (only that one call fails)
                p.flush_ok_after_write_fault = off % 3 == 1;
                p.transient = write_fault_is_transient(off);
            }
            SinkFault::Flush => p.fail_flush = true,
            _ => {}
        }
        p
    }

    fn finish_writer(&mut self, w: &SimWriter) {
        w.with(|s| {
            self.out.written = s.accepted.clone();
            self.out.write_fired = s.hard_fired;
            self.out.sim_events += s.events;
        });
    }

    fn insert_into<G, T>(&mut self, mut g: G, ts: T)
    where
        G: MutableGraph,
        T: TripleSource,
    {
        for t in simple(self.pre) {
            g.insert(&t[0], &t[1], &t[2])
                .unwrap_or_else(|_| panic!("ORACLE: pre-population must fit"));
        }
        let (c, res) = stream_res(g.insert_all(ts));
        self.out.count = c;
        self.out.res = res;
        self.out.state = Some(graph_content(&g));
    }

    fn remove_from<G, T>(&mut self, mut g: G, ts: T)
    where
        G: MutableGraph,
        T: TripleSource,
    {
        for t in simple(self.pre) {
            g.insert(&t[0], &t[1], &t[2])
                .unwrap_or_else(|_| panic!("ORACLE: pre-population must fit"));
        }
        let (c, res) = stream_res(g.remove_all(ts));
        self.out.count = c;
        self.out.res = res;
        self.out.state = Some(graph_content(&g));
    }

    fn qinsert_into<D, Q>(&mut self, mut d: D, qs: Q)
    where
        D: sophia_api::dataset::MutableDataset,
        Q: QuadSource,
    {
        for t in simple(self.pre) {
            d.insert(&t[0], &t[1], &t[2], None::<&SimpleTerm>)
                .unwrap_or_else(|_| panic!("ORACLE: pre-population must fit"));
        }
        let (c, res) = stream_res(d.insert_all(qs));
        self.out.count = c;
        self.out.res = res;
        self.out.state = Some(dataset_content(&d));
    }

    fn collect_into<G, T>(&mut self, ts: T)
    where
        G: CollectibleGraph,
        T: TripleSource,
    {
        let (g, res) = stream_res(ts.collect_triples::<G>());
        self.out.res = res;
        self.out.state = g.map(|g| graph_content(&g));
    }
}

impl<E> Visit<E> for Drive<'_>
where
    E: std::error::Error + Send + Sync + 'static,
{
    type Out = ();

    fn visit<T: TripleSource<Error = E>>(mut self, mut ts: T) {
        let fail_at = match self.sink {
            SinkFault::Closure(j) => Some(j),
            _ => None,
        };
        match self.consumer {
            Consumer::TryForEach => {
                let mut n = 0usize;
                let out = &mut *self.out;
                let r = ts.try_for_each_triple(|t| -> Result<(), SimFault> {
                    let m = triple_from(t);
                    out.offered.push(m.clone());
                    let this = n;
                    n += 1;
                    if Some(this) == fail_at {
                        return Err(SimFault { id: SINK_ID });
                    }
                    out.consumed.push(m);
                    Ok(())
                });
                self.out.res = stream_res(r).1;
            }
            Consumer::ForEach => {
                let out = &mut *self.out;
                let r = ts.for_each_triple(|t| {
                    let m = triple_from(t);
                    out.offered.push(m.clone());
                    out.consumed.push(m);
                });
                self.out.res = match r {
                    Ok(()) => Res::Ok,
                    Err(e) => Res::Plain(Box::new(e)),
                };
            }
            Consumer::StepTry => {
                let mut n = 0usize;
                let mut steps = 0usize;
                loop {
                    let out = &mut *self.out;
                    let r = ts.try_for_some_triple(|t| -> Result<(), SimFault> {
                        let m = triple_from(t);
                        out.offered.push(m.clone());
                        let this = n;
                        n += 1;
                        if Some(this) == fail_at {
                            return Err(SimFault { id: SINK_ID });
                        }
                        out.consumed.push(m);
                        Ok(())
                    });
                    steps += 1;
                    match r {
                        Ok(true) if steps < 10_000 => continue,
                        Ok(true) => panic!("ORACLE: try_for_some_triple returned Ok(true) 10000 times for <= 8 items"),
                        Ok(false) => {
                            // Ok(false) must be the true end: one more call must deliver nothing
                            let before = self.out.offered.len();
                            let out = &mut *self.out;
                            let again = ts.try_for_some_triple(|t| -> Result<(), SimFault> {
                                out.offered.push(triple_from(t));
                                Ok(())
                            });
                            if self.out.offered.len() != before || matches!(again, Ok(true)) {
                                self.out.early_false = true;
                            }
                            self.out.offered.truncate(before);
                            self.out.res = Res::Ok;
                            break;
                        }
                        Err(e) => {
                            self.out.res = stream_res::<(), _, _>(Err(e)).1;
                            break;
                        }
                    }
                }
            }
            Consumer::StepFor => {
                let mut steps = 0usize;
                loop {
                    let out = &mut *self.out;
                    let r = ts.for_some_triple(|t| {
                        let m = triple_from(t);
                        out.offered.push(m.clone());
                        out.consumed.push(m);
                    });
                    steps += 1;
                    match r {
                        Ok(true) if steps < 10_000 => continue,
                        Ok(true) => panic!("ORACLE: for_some_triple returned Ok(true) 10000 times for <= 8 items"),
                        Ok(false) => {
                            self.out.res = Res::Ok;
                            break;
                        }
                        Err(e) => {
                            self.out.res = Res::Plain(Box::new(e));
                            break;
                        }
                    }
                }
            }
            Consumer::CollectVec => self.collect_into::<Vec<STriple>, _>(ts),
            Consumer::CollectBTree => self.collect_into::<BTreeSet<STriple>, _>(ts),
            Consumer::CollectHash => self.collect_into::<HashSet<STriple>, _>(ts),
            Consumer::CollectFast => self.collect_into::<sophia_inmem::graph::FastGraph, _>(ts),
            Consumer::CollectLight => {
                self.collect_into::<sophia_inmem::graph::small::LightGraph, _>(ts)
            }
            Consumer::InsertVec => self.insert_into(Vec::<STriple>::new(), ts),
            Consumer::InsertBTree => self.insert_into(BTreeSet::<STriple>::new(), ts),
            Consumer::InsertHash => self.insert_into(HashSet::<STriple>::new(), ts),
            Consumer::InsertFastTiny(0) => self.insert_into(FastTiny::<5>::new(), ts),
            Consumer::InsertFastTiny(1) => self.insert_into(FastTiny::<9>::new(), ts),
            Consumer::InsertFastTiny(_) => self.insert_into(FastTiny::<14>::new(), ts),
            Consumer::InsertLightTiny(0) => self.insert_into(LightTiny::<5>::new(), ts),
            Consumer::InsertLightTiny(1) => self.insert_into(LightTiny::<9>::new(), ts),
            Consumer::InsertLightTiny(_) => self.insert_into(LightTiny::<14>::new(), ts),
            Consumer::RemoveVec => self.remove_from(Vec::<STriple>::new(), ts),
            Consumer::RemoveFast => self.remove_from(sophia_inmem::graph::FastGraph::new(), ts),
            Consumer::InsertFlaky | Consumer::RemoveFlaky => {
                let mut g = Flaky::default();
                for t in simple(self.pre) {
                    g.inner.insert(t);
                }
                g.fail_at = fail_at;
                let (c, res) = if self.consumer == Consumer::InsertFlaky {
                    stream_res(g.insert_all(ts))
                } else {
                    stream_res(g.remove_all(ts))
                };
                self.out.count = c;
                self.out.res = res;
                self.out.state = Some(graph_content(&g));
            }
            Consumer::QInsertFlaky | Consumer::QRemoveFlaky => {
                let qops = self.qops;
                with_qchain(ts.to_quads(), qops, self);
            }
            Consumer::SerNt => {
                let w = SimWriter::new(self.wplan());
                let mut ser = sophia_turtle::serializer::nt::NtSerializer::new(w.handle());
                self.out.res = stream_res(ser.serialize_triples(ts).map(|_| ())).1;
                self.finish_writer(&w);
            }
            Consumer::SerTtl | Consumer::SerTtlPretty => {
                let w = SimWriter::new(self.wplan());
                let cfg = sophia_turtle::serializer::turtle::TurtleConfig::new()
                    .with_pretty(self.consumer == Consumer::SerTtlPretty);
                let mut ser = sophia_turtle::serializer::turtle::TurtleSerializer::new_with_config(
                    w.handle(),
                    cfg,
                );
                self.out.res = stream_res(ser.serialize_triples(ts).map(|_| ())).1;
                self.finish_writer(&w);
            }
            Consumer::SerXml => {
                let w = SimWriter::new(self.wplan());
                let mut ser = sophia_xml::serializer::RdfXmlSerializer::new(w.handle());
                self.out.res = stream_res(ser.serialize_triples(ts).map(|_| ())).1;
                self.finish_writer(&w);
            }
            Consumer::QuadsTry
            | Consumer::QuadsCollect
            | Consumer::SerNq
            | Consumer::QInsertFastTiny(_)
            | Consumer::QInsertLightTiny(_)
            | Consumer::QRemoveFast
            | Consumer::QCollectFast
            | Consumer::QCollectLight
            | Consumer::SerTrig
            | Consumer::SerTrigPretty => {
                let qops = self.qops;
                with_qchain(ts.to_quads(), qops, self);
            }
            Consumer::IterCollect | Consumer::IterStep => {
                panic!("ORACLE: iterator consumers are driven through with_chain_iter")
            }
        }
    }
}

impl<E> VisitQ<E> for Drive<'_>
where
    E: std::error::Error + Send + Sync + 'static,
{
    type Out = ();

    fn visit_q<T: QuadSource<Error = E>>(mut self, mut qs: T) {
        let fail_at = match self.sink {
            SinkFault::Closure(j) => Some(j),
            _ => None,
        };
        match self.consumer {
            Consumer::QuadsTry => {
                let mut n = 0usize;
                let out = &mut *self.out;
                let r = qs.try_for_each_quad(|q| -> Result<(), SimFault> {
                    let (m, g) = quad_from(q);
                    if g.is_some() {
                        panic!("ORACLE: to_quads() produced a named graph");
                    }
                    out.offered.push(m.clone());
                    let this = n;
                    n += 1;
                    if Some(this) == fail_at {
                        return Err(SimFault { id: SINK_ID });
                    }
                    out.consumed.push(m);
                    Ok(())
                });
                self.out.res = stream_res(r).1;
            }
            Consumer::QInsertFlaky | Consumer::QRemoveFlaky => {
                use sophia_api::dataset::MutableDataset;
                let mut d = FlakyDs::default();
                for t in simple(self.pre) {
                    d.0.inner.insert(t);
                }
                d.0.fail_at = fail_at;
                let (c, res) = if self.consumer == Consumer::QInsertFlaky {
                    stream_res(d.insert_all(qs))
                } else {
                    stream_res(d.remove_all(qs))
                };
                self.out.count = c;
                self.out.res = res;
                self.out.state = Some(graph_content(&d.0));
            }
            Consumer::QInsertFastTiny(0) => self.qinsert_into(FastDsTiny::<5>::new(), qs),
            Consumer::QInsertFastTiny(1) => self.qinsert_into(FastDsTiny::<9>::new(), qs),
            Consumer::QInsertFastTiny(_) => self.qinsert_into(FastDsTiny::<14>::new(), qs),
            Consumer::QInsertLightTiny(0) => self.qinsert_into(LightDsTiny::<5>::new(), qs),
            Consumer::QInsertLightTiny(1) => self.qinsert_into(LightDsTiny::<9>::new(), qs),
            Consumer::QInsertLightTiny(_) => self.qinsert_into(LightDsTiny::<14>::new(), qs),
            Consumer::QRemoveFast => {
                use sophia_api::dataset::MutableDataset;
                let mut d = sophia_inmem::dataset::FastDataset::new();
                for t in simple(self.pre) {
                    d.insert(&t[0], &t[1], &t[2], None::<&SimpleTerm>)
                        .unwrap_or_else(|_| panic!("ORACLE: pre-population must fit"));
                }
                let (c, res) = stream_res(d.remove_all(qs));
                self.out.count = c;
                self.out.res = res;
                self.out.state = Some(dataset_content(&d));
            }
            Consumer::QCollectFast => {
                let (d, res) = stream_res(qs.collect_quads::<sophia_inmem::dataset::FastDataset>());
                self.out.res = res;
                self.out.state = d.map(|d| dataset_content(&d));
            }
            Consumer::QCollectLight => {
                let (d, res) = stream_res(qs.collect_quads::<sophia_inmem::dataset::LightDataset>());
                self.out.res = res;
                self.out.state = d.map(|d| dataset_content(&d));
            }
            Consumer::SerTrig | Consumer::SerTrigPretty => {
                let w = SimWriter::new(self.wplan());
                let cfg = sophia_turtle::serializer::trig::TrigConfig::new()
                    .with_pretty(self.consumer == Consumer::SerTrigPretty);
                let mut ser = sophia_turtle::serializer::trig::TrigSerializer::new_with_config(w.handle(), cfg);
                self.out.res = stream_res(ser.serialize_quads(qs).map(|_| ())).1;
                self.finish_writer(&w);
            }
            Consumer::QuadsCollect => {
                let (d, res) = stream_res(qs.collect_quads::<Vec<Spog<SimpleTerm<'static>>>>());
                self.out.res = res;
                self.out.state = d.map(|d| d.iter().map(|q| mt(&q.0)).collect());
            }
            _ => {
                let w = SimWriter::new(self.wplan());
                let mut ser = sophia_turtle::serializer::nq::NqSerializer::new(w.handle());
                self.out.res = stream_res(ser.serialize_quads(qs).map(|_| ())).1;
                self.finish_writer(&w);
            }
        }
    }
}

impl<E> VisitIter<E> for Drive<'_>
where
    E: std::error::Error + Send + Sync + 'static,
{
    type Out = ();

    fn visit_iter<I: IntoIterator<Item = Result<STriple, E>>>(self, it: I) {
        match self.consumer {
            Consumer::IterCollect => {
                // the std idiom: stops at the first Err
                let mut seen = vec![];
                let r: Result<Vec<STriple>, E> = it
                    .into_iter()
                    .inspect(|x| {
                        if let Ok(t) = x {
                            seen.push(mt(t));
                        }
                    })
                    .collect();
                self.out.offered = seen.clone();
                match r {
                    Ok(v) => {
                        self.out.consumed = v.iter().map(mt).collect();
                        self.out.res = Res::Ok;
                    }
                    Err(e) => {
                        self.out.consumed = seen;
                        self.out.res = Res::Plain(Box::new(e));
                    }
                }
            }
            _ => {
                let mut it = it.into_iter();
                let mut steps = 0;
                loop {
                    steps += 1;
                    if steps > 10_000 {
                        panic!("ORACLE: iterator over <= 8 items yielded 10000 times");
                    }
                    match it.next() {
                        None => {
                            self.out.res = Res::Ok;
                            break;
                        }
                        Some(Ok(t)) => {
                            let m = mt(&t);
                            self.out.offered.push(m.clone());
                            self.out.consumed.push(m);
                        }
                        Some(Err(e)) => {
                            self.out.res = Res::Plain(Box::new(e));
                            break;
                        }
                    }
                }
            }
        }
    }
}

// ---------------------------------------------------------------------------------------------
// executing one (setup, source fault, sink fault) configuration on the real code

fn nt_line(t: &MTriple) -> String {
    fn term(t: &MTerm) -> String {
        match t {
            MTerm::Iri(i) => format!("<{i}>"),
            MTerm::Bnode(b) => format!("_:{b}"),
            MTerm::Lit(l, d) if d == XSD_STRING => format!("{l:?}"),
            MTerm::Lit(l, d) => format!("{l:?}^^<{d}>"),
            MTerm::Lang(l, t) => format!("{l:?}@{t}"),
            _ => panic!("ORACLE: term kind not used in stream items"),
        }
    }
    format!("{} {} {} .\n", term(&t[0]), term(&t[1]), term(&t[2]))
}

/// (document, end offset of each statement)
fn document(items: &[MTriple], broken: Option<usize>) -> (Vec<u8>, Vec<usize>) {
    let mut doc = Vec::new();
    let mut ends = vec![];
    for (i, t) in items.iter().enumerate() {
        if broken == Some(i) {
            doc.extend_from_slice(format!("<{}{}> <http://ex.org/p> <<< .\n", SUBJ_PREFIX, item_id(t)).as_bytes());
        } else {
            doc.extend_from_slice(nt_line(t).as_bytes());
        }
        ends.push(doc.len());
    }
    (doc, ends)
}

const MULTI_SUBJECT: &str = "http://ex.org/S";

/// One Turtle statement per run of items, with `;` and `,`: `<S> <p> <s3> , <s1> ; <q> <s2> .`
fn document_multi(items: &[MTriple], broken: Option<usize>) -> (Vec<u8>, Vec<usize>) {
    let mut doc = String::new();
    let mut ends = vec![];
    let mut prev_p: Option<&MTerm> = None;
    for (i, t) in items.iter().enumerate() {
        if i == 0 {
            doc.push_str(&format!("<{MULTI_SUBJECT}> "));
        }
        if prev_p == Some(&t[1]) {
            doc.push_str(" , ");
        } else {
            if prev_p.is_some() {
                doc.push_str(" ; ");
            }
            doc.push_str(&format!("{} ", t[1]));
        }
        prev_p = Some(&t[1]);
        if broken == Some(i) {
            doc.push_str("<<<");
        } else {
            doc.push_str(&format!("{}", t[2]));
        }
        ends.push(doc.len());
    }
    if !items.is_empty() {
        doc.push_str(" .\n");
        if let Some(last) = ends.last_mut() {
            *last = doc.len();
        }
    }
    (doc.into_bytes(), ends)
}

fn document_xml(items: &[MTriple], broken: Option<usize>) -> (Vec<u8>, Vec<usize>) {
    let mut doc = String::from("<rdf:RDF xmlns:rdf=\"http://www.w3.org/1999/02/22-rdf-syntax-ns#\" xmlns:e=\"http://ex.org/\">\n");
    let mut ends = vec![];
    for (i, t) in items.iter().enumerate() {
        let about = match &t[0] {
            MTerm::Iri(s) => s.clone(),
            _ => panic!("ORACLE: XML items have IRI subjects"),
        };
        let local = match &t[1] {
            MTerm::Iri(p) => p.rsplit('/').next().unwrap_or("p").to_string(),
            _ => panic!("ORACLE: XML items have IRI predicates"),
        };
        if broken == Some(i) {
            doc.push_str(&format!("<rdf:Description rdf:about=\"{about}\"><e:{local} rdf:resource=</rdf:Description>\n"));
        } else {
            let prop = match &t[2] {
                MTerm::Iri(o) => format!("<e:{local} rdf:resource=\"{o}\"/>"),
                MTerm::Bnode(b) => format!("<e:{local} rdf:nodeID=\"{b}\"/>"),
                MTerm::Lit(l, d) if d == XSD_STRING => format!("<e:{local}>{l}</e:{local}>"),
                MTerm::Lit(l, d) => format!("<e:{local} rdf:datatype=\"{d}\">{l}</e:{local}>"),
                MTerm::Lang(l, tag) => format!("<e:{local} xml:lang=\"{tag}\">{l}</e:{local}>"),
                _ => panic!("ORACLE: term kind not used in stream items"),
            };
            doc.push_str(&format!("<rdf:Description rdf:about=\"{about}\">{prop}</rdf:Description>\n"));
        }
        ends.push(doc.len());
    }
    doc.push_str("</rdf:RDF>\n");
    (doc.into_bytes(), ends)
}

fn document_jsonld(items: &[MTriple], broken: Option<usize>) -> (Vec<u8>, Vec<usize>) {
    let mut doc = String::from("[\n");
    let mut ends = vec![];
    for (i, t) in items.iter().enumerate() {
        let id = match &t[0] {
            MTerm::Iri(s) => s.clone(),
            _ => panic!("ORACLE: JSON-LD items have IRI subjects"),
        };
        let p = match &t[1] {
            MTerm::Iri(p) => p.clone(),
            _ => panic!("ORACLE: JSON-LD items have IRI predicates"),
        };
        let o = match &t[2] {
            MTerm::Iri(o) => format!("{{\"@id\":\"{o}\"}}"),
            MTerm::Bnode(b) => format!("{{\"@id\":\"_:{b}\"}}"),
            MTerm::Lit(l, d) if d == XSD_STRING => format!("{{\"@value\":\"{l}\"}}"),
            MTerm::Lit(l, d) => format!("{{\"@value\":\"{l}\",\"@type\":\"{d}\"}}"),
            MTerm::Lang(l, tag) => format!("{{\"@value\":\"{l}\",\"@language\":\"{tag}\"}}"),
            _ => panic!("ORACLE: term kind not used in stream items"),
        };
        if i > 0 {
            doc.push_str(",\n");
        }
        if broken == Some(i) {
            doc.push_str(&format!("{{\"@id\":\"{id}\",\"{p}\":[{{\"@id\":}}]}}"));
        } else {
            doc.push_str(&format!("{{\"@id\":\"{id}\",\"{p}\":[{o}]}}"));
        }
        ends.push(doc.len());
    }
    doc.push_str("\n]\n");
    (doc.into_bytes(), ends)
}

fn document_for(src: SrcKind, items: &[MTriple], broken: Option<usize>) -> (Vec<u8>, Vec<usize>) {
    match src {
        SrcKind::JsonLdParser => document_jsonld(items, broken),
        SrcKind::TurtleMulti => document_multi(items, broken),
        SrcKind::XmlParser => document_xml(items, broken),
        _ => document(items, broken),
    }
}

fn execute(setup: &Setup, sf: SrcFault, kf: SinkFault) -> Outcome {
    if setup.src == SrcKind::JsonLdParser {
        // json-ld iterates HashMaps: the order in which quads come out depends on the hash
        // seed; every execution of one run gets the same one
        simcore::driver::on_fresh_thread(setup.hs, || execute_inner(setup, sf, kf))
    } else {
        execute_inner(setup, sf, kf)
    }
}

fn execute_inner(setup: &Setup, sf: SrcFault, kf: SinkFault) -> Outcome {
    let ops: Vec<Op> = setup
        .ops
        .iter()
        .map(|(kind, mask, k)| Op {
            kind: *kind,
            mask: *mask,
            k: *k,
            calls: Rc::new(Cell::new(0)),
        })
        .collect();
    let mut out = Outcome {
        res: Res::Ok,
        offered: vec![],
        consumed: vec![],
        state: None,
        count: None,
        pulls: 0,
        calls: vec![],
        written: vec![],
        write_fired: false,
        read_fired: false,
        early_false: false,
        sim_events: 0,
        incoherent: None,
    };
    INCOHERENT.with(|i| i.borrow_mut().take());
    let qops: Vec<Op> = setup
        .qops
        .iter()
        .map(|(kind, mask, k)| Op {
            kind: *kind,
            mask: *mask,
            k: *k,
            calls: Rc::new(Cell::new(0)),
        })
        .collect();
    let pulls = Rc::new(Cell::new(0usize));
    {
        let drive = Drive {
            qops: &qops,
            consumer: setup.consumer,
            sink: kf,
            pre: &setup.pre,
            noise: &setup.noise,
            out: &mut out,
        };
        match setup.src {
            SrcKind::Iter => {
                let src = FaultyIter {
                    items: simple(&setup.items),
                    pos: 0,
                    fail_at: match sf {
                        SrcFault::IterErr(k) => Some(k),
                        _ => None,
                    },
                    pulls: pulls.clone(),
                };
                if setup.consumer.needs_iter() {
                    with_chain_iter(src, &ops, drive);
                } else {
                    with_chain(src, &ops, drive);
                }
            }
            SrcKind::Batch => {
                let src = BatchSource {
                    items: simple(&setup.items),
                    pos: 0,
                    sizes: setup.batch.clone(),
                    step: 0,
                    fail_at: match sf {
                        SrcFault::IterErr(k) => Some(k),
                        _ => None,
                    },
                    pulls: pulls.clone(),
                };
                if setup.consumer.needs_iter() {
                    with_chain_iter(src, &ops, drive);
                } else {
                    with_chain(src, &ops, drive);
                }
            }
            SrcKind::NtParser | SrcKind::TurtleParser | SrcKind::TurtleMulti | SrcKind::XmlParser | SrcKind::JsonLdParser | SrcKind::NqParser | SrcKind::GnqParser | SrcKind::TrigParser => {
                let broken = match sf {
                    SrcFault::Syntax(k) => Some(k),
                    _ => None,
                };
                let (doc, _) = document_for(setup.src, &setup.items, broken);
                let plan = RPlan {
                    noise: setup.noise.clone(),
                    fail_at: match sf {
                        SrcFault::Read(b) => Some(b),
                        _ => None,
                    },
                    fault_id: READ_ID,
                    kind: Some(std::io::ErrorKind::Other),
                    max_chunk: 0,
                };
                let rd = SimReader::new(doc, plan);
                let h = rd.handle();
                if setup.src == SrcKind::NtParser {
                    with_chain_short(sophia_turtle::parser::nt::parse_bufread(rd), &ops, drive);
                } else if setup.src == SrcKind::TurtleMulti && setup.consumer.needs_iter() {
                    with_chain_iter(sophia_turtle::parser::turtle::parse_bufread(rd), &ops, drive);
                } else if setup.src == SrcKind::XmlParser {
                    with_chain_short(sophia_xml::parser::parse_bufread(rd), &ops, drive);
                } else if setup.src == SrcKind::NqParser {
                    with_chain_short(sophia_turtle::parser::nq::parse_bufread(rd).to_triples(), &ops, drive);
                } else if setup.src == SrcKind::GnqParser {
                    with_chain_short(sophia_turtle::parser::gnq::parse_bufread(rd).to_triples(), &ops, drive);
                } else if setup.src == SrcKind::TrigParser {
                    with_chain_short(sophia_turtle::parser::trig::parse_bufread(rd).to_triples(), &ops, drive);
                } else if setup.src == SrcKind::JsonLdParser {
                    let p = sophia_jsonld::JsonLdParser::new();
                    let qs = sophia_api::parser::QuadParser::parse(&p, rd);
                    with_chain_short(qs.to_triples(), &ops, drive);
                } else {
                    with_chain_short(sophia_turtle::parser::turtle::parse_bufread(rd), &ops, drive);
                }
                h.with(|s| {
                    out.read_fired = s.hard_fired;
                    out.sim_events += s.events;
                });
            }
            SrcKind::VecGraph => {
                let g: Vec<STriple> = simple(&setup.items);
                with_chain_short(g.triples(), &ops, drive);
            }
            SrcKind::FastGraph => {
                let mut g = sophia_inmem::graph::FastGraph::new();
                for t in simple(&setup.items) {
                    g.insert(&t[0], &t[1], &t[2]).expect("ORACLE: FastGraph insert");
                }
                with_chain_short(g.triples(), &ops, drive);
            }
        }
    }
    out.pulls = pulls.get();
    out.calls = ops.iter().chain(qops.iter()).map(|o| o.calls.get()).collect();
    out.incoherent = INCOHERENT.with(|i| i.borrow_mut().take());
    out
}

// ---------------------------------------------------------------------------------------------
// the oracle

fn ops_of(setup: &Setup) -> Vec<Op> {
    setup
        .ops
        .iter()
        .chain(setup.qops.iter())
        .map(|(kind, mask, k)| Op {
            kind: *kind,
            mask: *mask,
            k: *k,
            calls: Rc::new(Cell::new(0)),
        })
        .collect()
}

fn fmt_ts(ts: &[MTriple]) -> String {
    let ids: Vec<String> = ts.iter().map(|t| item_id(t).to_string()).collect();
    format!("[{}]", ids.join(","))
}

fn as_set(ts: &[MTriple]) -> BTreeSet<MTriple> {
    ts.iter().cloned().collect()
}

fn as_sorted(ts: &[MTriple]) -> Vec<MTriple> {
    let mut v = ts.to_vec();
    v.sort();
    v
}

/// index-full model: which delivered item (index into `delivered`) overflows a term index of
/// capacity `cap` that already holds the terms of `pre`?
fn index_full_at(pre: &[MTriple], delivered: &[MTriple], cap: usize) -> Option<usize> {
    let mut terms: BTreeSet<MTerm> = BTreeSet::new();
    for t in pre {
        for x in t {
            terms.insert(x.clone());
        }
    }
    for (j, t) in delivered.iter().enumerate() {
        for x in t {
            if !terms.contains(x) {
                if terms.len() >= cap {
                    return Some(j);
                }
                terms.insert(x.clone());
            }
        }
    }
    None
}

struct Case<'a> {
    /// what the chain delivers, in delivery order (for set-ordered store sources the order is
    /// observed once with a plain closure consumer and checked against the model as a multiset)
    delivery: &'a [MTriple],
    setup: &'a Setup,
    sf: SrcFault,
    kf: SinkFault,
    desc: String,
}

fn check(case: &Case<'_>, twin: &Outcome, out: &Outcome) -> Verdict {
    let setup = case.setup;
    let real_consumer = setup.consumer;
    let c = setup.consumer.oracle_equiv();
    let d = &case.desc;
    let ops = ops_of(setup);
    let n = setup.items.len();
    let expected: Vec<MTriple> = case.delivery.to_vec();
    // position (in the source) of each delivered item
    let src_pos = |t: &MTriple| -> usize {
        let id = item_id(t);
        setup
            .items
            .iter()
            .position(|x| item_id(x) == id)
            .unwrap_or(usize::MAX)
    };
    let closure_consumer = matches!(
        c,
        Consumer::TryForEach | Consumer::ForEach | Consumer::StepTry | Consumer::StepFor | Consumer::QuadsTry | Consumer::IterCollect | Consumer::IterStep
    );

    // ---- classify what is supposed to happen
    // source side
    let (src_fires, k_src) = match case.sf {
        SrcFault::IterErr(k) if k <= n => (true, k),
        SrcFault::Syntax(k) if k < n => (true, k),
        SrcFault::Read(_) => (out.read_fired, usize::MAX),
        _ => (false, n),
    };
    // expected delivery before a source fault at item k (a buffering source delivers nothing)
    let exp_prefix: Vec<MTriple> = if setup.src == SrcKind::JsonLdParser && src_fires {
        vec![]
    } else if k_src <= n {
        model_chain(&setup.items[..k_src.min(n)], &ops).0
    } else {
        expected.clone()
    };

    // ---- index-full emerges from capacity
    let cap_fault: Option<usize> = match c {
        Consumer::InsertFastTiny(i) | Consumer::InsertLightTiny(i) => {
            let upto = if src_fires && k_src <= n { &exp_prefix } else { &expected };
            index_full_at(&setup.pre, upto, TINY_CAPS[i])
        }
        _ => None,
    };

    // ---- sink side
    let sink_fires_at: Option<usize> = match case.kf {
        SinkFault::Closure(j) if c.closure_can_fail() && j < exp_prefix.len().min(expected.len()) => Some(j),
        _ => cap_fault,
    };

    let oracle = |name: &str| format!("{name}/{:?}/{:?}", setup.src, real_consumer).replace(['(', ')'], "_");

    // A read fault and a term-index capacity fault in the same execution: which comes first
    // depends on how far the parser had read; accept exactly the two consistent outcomes.
    if let (true, Consumer::InsertFastTiny(i) | Consumer::InsertLightTiny(i)) = (out.read_fired, c) {
        let st = out.state.clone().unwrap_or_default();
        let cap_j = index_full_at(&setup.pre, &expected, TINY_CAPS[i]);
        let limit = cap_j.unwrap_or(expected.len());
        let state_is = |k: usize| {
            let mut w = setup.pre.to_vec();
            w.extend_from_slice(&expected[..k]);
            as_set(&w) == as_set(&st) && st.len() == as_set(&w).len()
        };
        let ok = match &out.res {
            Res::Source(e) => {
                (chain_has_fault(e.as_ref(), READ_ID) || debug_shows_fault(e.as_ref(), READ_ID))
                    && (0..=limit).any(state_is)
            }
            Res::Sink(e) => {
                e.downcast_ref::<TermIndexFullError>().is_some()
                    && cap_j.is_some_and(state_is)
            }
            _ => false,
        };
        ensure!(
            ok,
            oracle("read_fault_vs_index_full"),
            "{d}: result {} with target {} is neither 'source failed after a prefix' nor 'index full at its model position {cap_j:?}'",
            out.res.name(),
            fmt_ts(&st)
        );
        return Ok(());
    }

    // ===== 1. which side is blamed, and with which error value
    let write_fault = matches!(case.kf, SinkFault::Write(_) | SinkFault::Flush) && out.write_fired;
    if let Some(j) = sink_fires_at {
        // a sink fault fires first unless the source fails before delivering item j
        match &out.res {
            Res::Sink(e) => {
                if cap_fault == Some(j) && !matches!(case.kf, SinkFault::Closure(_)) {
                    ensure!(
                        e.downcast_ref::<TermIndexFullError>().is_some(),
                        oracle("sink_error_identity"),
                        "{d}: expected TermIndexFullError, got {e:?}"
                    );
                } else {
                    ensure!(
                        chain_has_fault(e.as_ref(), SINK_ID),
                        oracle("sink_error_identity"),
                        "{d}: SinkError does not carry the consumer's error value: {e:?}"
                    );
                }
            }
            other => {
                return Err(Violation::new(
                    oracle("sink_fault_misreported"),
                    format!("{d}: consumer fails on delivered item {j}, result is {}", other.name()),
                ));
            }
        }
    } else if write_fault {
        match &out.res {
            Res::Sink(e) => ensure!(
                chain_has_fault(e.as_ref(), WRITE_ID),
                oracle("sink_error_identity"),
                "{d}: SinkError does not carry the writer's error: {e:?}"
            ),
            other => {
                return Err(Violation::new(
                    oracle("write_fault_misreported"),
                    format!("{d}: writer failed, result is {}", other.name()),
                ));
            }
        }
    } else if src_fires {
        match (&out.res, case.sf) {
            (Res::Source(e) | Res::Plain(e), SrcFault::IterErr(_)) => ensure!(
                chain_has_fault(e.as_ref(), SRC_ID),
                oracle("source_error_identity"),
                "{d}: source error does not carry the iterator's error value: {e:?}"
            ),
            (Res::Source(e) | Res::Plain(e), SrcFault::Read(_)) => ensure!(
                chain_has_fault(e.as_ref(), READ_ID) || debug_shows_fault(e.as_ref(), READ_ID),
                oracle("source_error_identity"),
                "{d}: source error does not carry the reader's error: {e:?}"
            ),
            (Res::Source(_) | Res::Plain(_), _) => {}
            (other, _) => {
                return Err(Violation::new(
                    oracle("source_fault_misreported"),
                    format!("{d}: source fails, result is {}", other.name()),
                ));
            }
        }
    } else {
        ensure!(
            matches!(out.res, Res::Ok),
            oracle("spurious_error"),
            "{d}: no fault fired, result is {} {:?}",
            out.res.name(),
            out.res
        );
    }

    // ===== 2. exactly the prefix, exactly once, in source order
    let read_fault = matches!(case.sf, SrcFault::Read(_)) && out.read_fired;
    if closure_consumer {
        if read_fault && sink_fires_at.is_none() {
            // the parser decides which statement it was working on: prefix of the twin's
            // delivery, and nothing whose bytes lie beyond the fault offset
            ensure!(
                out.consumed.len() <= twin.consumed.len() && out.consumed[..] == twin.consumed[..out.consumed.len()],
                oracle("not_a_prefix"),
                "{d}: consumed {} is not a prefix of fault-free delivery {}",
                fmt_ts(&out.consumed),
                fmt_ts(&twin.consumed)
            );
            if let SrcFault::Read(b) = case.sf {
                let (_, ends) = document_for(setup.src, &setup.items, None);
                let complete = ends.iter().filter(|e| **e <= b).count();
                let max_deliverable = model_chain(&setup.items[..complete.min(n)], &ops).0.len();
                // statement `complete` may be complete up to its final newline
                let slack = model_chain(&setup.items[..(complete + 1).min(n)], &ops).0.len();
                ensure!(
                    out.consumed.len() <= slack.max(max_deliverable),
                    oracle("consumed_beyond_fault"),
                    "{d}: consumed {} items although the reader failed after {b} bytes ({} complete statements)",
                    out.consumed.len(),
                    complete
                );
            }
        } else {
            let want_consumed: &[MTriple] = match sink_fires_at {
                Some(j) => &expected[..j],
                None if src_fires => &exp_prefix,
                None => &expected,
            };
            ensure!(
                out.consumed == want_consumed,
                oracle("wrong_items_consumed"),
                "{d}: consumer accepted ids {} but the model says {}",
                fmt_ts(&out.consumed),
                fmt_ts(want_consumed)
            );
            if let Some(j) = sink_fires_at {
                ensure!(
                    out.offered.len() == j + 1 && out.offered[j] == expected[j],
                    oracle("offered_after_sink_failure"),
                    "{d}: consumer failed on delivered item {j}; it was offered ids {} (expected {} then stop)",
                    fmt_ts(&out.offered),
                    fmt_ts(&expected[..=j])
                );
            } else {
                ensure!(
                    out.offered.len() == out.consumed.len(),
                    oracle("offered_after_failure"),
                    "{d}: items offered after the failure: {}",
                    fmt_ts(&out.offered)
                );
            }
        }
        ensure!(!out.early_false, oracle("early_false"), "{d}: Ok(false) returned before the true end of the stream");
    }

    // ===== 3. pull count and closure call counts (streaming consumers on the iterator source)
    if matches!(setup.src, SrcKind::Iter | SrcKind::Batch) && !c.buffering() {
        let want_pulls = if setup.src == SrcKind::Batch {
            None
        } else if let Some(j) = sink_fires_at {
            Some(src_pos(&expected[j]) + 1)
        } else if src_fires && !write_fault {
            Some(k_src + 1)
        } else if write_fault {
            None
        } else if matches!(c, Consumer::StepTry | Consumer::StepFor | Consumer::IterStep | Consumer::IterCollect) {
            None // one extra pull to observe the end is legitimate; checked as <= n + 2 below
        } else {
            Some(n + 1)
        };
        if let Some(wp) = want_pulls {
            ensure!(
                out.pulls == wp,
                oracle("pull_count"),
                "{d}: the source iterator was pulled {} times, expected {wp}",
                out.pulls
            );
        }
        ensure!(
            out.pulls <= n + 3 || setup.src == SrcKind::Batch,
            oracle("pull_count"),
            "{d}: the source iterator was pulled {} times for {n} items",
            out.pulls
        );
        // each stage's closure runs exactly once per item reaching it
        let upto = if let Some(j) = sink_fires_at {
            src_pos(&expected[j]) + 1
        } else if src_fires && !write_fault {
            k_src
        } else {
            n
        };
        if !write_fault {
            let (_, want_calls) = model_chain(&setup.items[..upto.min(n)], &ops);
            ensure!(
                out.calls == want_calls,
                oracle("closure_call_count"),
                "{d}: adapter closures were invoked {:?} times, the model says {:?}",
                out.calls,
                want_calls
            );
        }
    }

    // ===== 4. resulting state
    if let Some(why) = &out.incoherent {
        violation!(oracle("target_store_incoherent"), "{d}: after the stream ended ({}) the target store is not coherent: {why}", out.res.name());
    }
    let is_set_target = matches!(
        c,
        Consumer::CollectBTree | Consumer::CollectHash | Consumer::CollectFast | Consumer::CollectLight
            | Consumer::InsertBTree | Consumer::InsertHash | Consumer::InsertFastTiny(_) | Consumer::InsertLightTiny(_) | Consumer::RemoveFast
            | Consumer::InsertFlaky | Consumer::RemoveFlaky | Consumer::QInsertFlaky | Consumer::QRemoveFlaky
    );
    match c {
        Consumer::CollectVec | Consumer::CollectBTree | Consumer::CollectHash | Consumer::CollectFast | Consumer::CollectLight | Consumer::QuadsCollect => {
            if matches!(out.res, Res::Ok) {
                let st = out.state.clone().unwrap_or_default();
                if is_set_target {
                    ensure!(
                        as_set(&st) == as_set(&expected) && st.len() == as_set(&expected).len(),
                        oracle("collected_content"),
                        "{d}: collected {} (as a set, each once) but the model says {}",
                        fmt_ts(&st),
                        fmt_ts(&expected)
                    );
                } else if setup.src == SrcKind::FastGraph {
                    ensure!(as_sorted(&st) == as_sorted(&expected), oracle("collected_content"), "{d}: collected {} vs {}", fmt_ts(&st), fmt_ts(&expected));
                } else {
                    ensure!(
                        st == expected,
                        oracle("collected_content"),
                        "{d}: collected sequence {} but the model says {}",
                        fmt_ts(&st),
                        fmt_ts(&expected)
                    );
                }
            }
        }
        Consumer::InsertVec | Consumer::InsertBTree | Consumer::InsertHash | Consumer::InsertFastTiny(_) | Consumer::InsertLightTiny(_) | Consumer::InsertFlaky | Consumer::QInsertFlaky => {
            let applied: &[MTriple] = match sink_fires_at {
                Some(j) => &expected[..j],
                None if read_fault => &twin.state.as_deref().unwrap_or(&[])[..0],
                None if src_fires => &exp_prefix,
                None => &expected,
            };
            let st = out.state.clone().unwrap_or_default();
            if read_fault && sink_fires_at.is_none() {
                // content = pre + some prefix of expected
                let ok = (0..=expected.len()).any(|k| {
                    let mut w = setup.pre.to_vec();
                    w.extend_from_slice(&expected[..k]);
                    if is_set_target { as_set(&w) == as_set(&st) } else { as_sorted(&w) == as_sorted(&st) }
                });
                ensure!(ok, oracle("state_after_failure"), "{d}: target content is not pre + a prefix of the stream");
            } else {
                let mut want = setup.pre.to_vec();
                want.extend_from_slice(applied);
                if is_set_target {
                    ensure!(
                        as_set(&st) == as_set(&want) && st.len() == as_set(&want).len(),
                        oracle("state_after_insert_all"),
                        "{d}: target holds {} but the model says pre+{} = {}",
                        fmt_ts(&st),
                        fmt_ts(applied),
                        fmt_ts(&want)
                    );
                } else {
                    ensure!(
                        as_sorted(&st) == as_sorted(&want),
                        oracle("state_after_insert_all"),
                        "{d}: target list holds {} but the model says {}",
                        fmt_ts(&st),
                        fmt_ts(&want)
                    );
                }
                if matches!(out.res, Res::Ok) {
                    let want_count = if is_set_target {
                        let pre = as_set(&setup.pre);
                        let mut seen = pre.clone();
                        applied.iter().filter(|t| seen.insert((*t).clone())).count()
                    } else {
                        applied.len()
                    };
                    ensure!(
                        out.count == Some(want_count),
                        oracle("returned_count"),
                        "{d}: insert_all returned {:?}, the model counts {want_count} effective insertions",
                        out.count
                    );
                }
            }
        }
        Consumer::RemoveVec | Consumer::RemoveFast | Consumer::RemoveFlaky | Consumer::QRemoveFlaky => {
            let applied: &[MTriple] = match sink_fires_at {
                Some(j) => &expected[..j],
                None if src_fires && !read_fault => &exp_prefix,
                None => &expected,
            };
            let st = out.state.clone().unwrap_or_default();
            if !(read_fault) {
                let gone = as_set(applied);
                let want: Vec<MTriple> = setup.pre.iter().filter(|t| !gone.contains(*t)).cloned().collect();
                if is_set_target {
                    ensure!(as_set(&st) == as_set(&want) && st.len() == as_set(&want).len(), oracle("state_after_remove_all"), "{d}: target holds {} but the model says {}", fmt_ts(&st), fmt_ts(&want));
                    if matches!(out.res, Res::Ok) {
                        let mut present = as_set(&setup.pre);
                        let want_count = applied.iter().filter(|t| present.remove(*t)).count();
                        ensure!(out.count == Some(want_count), oracle("returned_count"), "{d}: remove_all returned {:?}, the model counts {want_count} effective removals", out.count);
                    }
                } else {
                    ensure!(as_sorted(&st) == as_sorted(&want), oracle("state_after_remove_all"), "{d}: target list holds {} but the model says {}", fmt_ts(&st), fmt_ts(&want));
                }
            }
        }
        _ => {}
    }

    // ===== 5. serializers: accepted bytes
    if c.is_serializer() {
        match case.kf {
            SinkFault::Write(b) if out.write_fired && write_fault_is_transient(b) => {
                // only the one call failed: whatever the serializer (or a BufWriter it owns,
                // when dropped) wrote afterwards was accepted, so "processing stops there"
                // shows as: the writer holds a prefix of the fault-free output
                ensure!(
                    out.written.len() >= b && twin.written.starts_with(&out.written),
                    oracle("bytes_after_write_fault"),
                    "{d}: one write call failed after {b} accepted bytes (later calls succeed); the writer ends up with {} bytes that are not a prefix of the fault-free output: the serializer went on writing after the failure\n got: {}\nwant: {}",
                    out.written.len(),
                    String::from_utf8_lossy(&out.written),
                    String::from_utf8_lossy(&twin.written)
                );
            }
            SinkFault::Write(b) if out.write_fired => {
                ensure!(
                    out.written.len() == b && out.written[..] == twin.written[..b.min(twin.written.len())],
                    oracle("bytes_before_write_fault"),
                    "{d}: writer accepted {} bytes before failing at {b}; they must equal the fault-free output's first {b} bytes",
                    out.written.len()
                );
            }
            _ if !src_fires && !out.write_fired => {
                ensure!(
                    out.written == twin.written,
                    oracle("benign_noise_changes_output"),
                    "{d}: output differs from the fault-free twin although no fault fired"
                );
            }
            _ => {}
        }
        if src_fires && !out.write_fired {
            if c.buffering() {
                ensure!(
                    out.written.is_empty(),
                    oracle("buffering_serializer_wrote_after_source_error"),
                    "{d}: pretty serializer wrote {} bytes although the source failed",
                    out.written.len()
                );
            } else if matches!(c, Consumer::SerNt | Consumer::SerNq) && !read_fault {
                // exactly the lines of the delivered prefix
                let want: Vec<u8> = exp_prefix.iter().flat_map(|t| nt_line_ser(t).into_bytes()).collect();
                ensure!(
                    out.written == want,
                    oracle("bytes_before_source_fault"),
                    "{d}: serializer wrote {:?} before the source failed, expected the {} delivered statements {:?}",
                    String::from_utf8_lossy(&out.written),
                    exp_prefix.len(),
                    String::from_utf8_lossy(&want)
                );
            } else {
                ensure!(
                    out.written.len() <= twin.written.len() || setup.src != SrcKind::Iter,
                    oracle("bytes_before_source_fault"),
                    "{d}: serializer wrote more than the fault-free run"
                );
            }
        }
    }
    Ok(())
}

/// What NtSerializer writes for a triple (the twin's output is the reference; this is used only
/// to cut it at statement boundaries).
fn nt_line_ser(t: &MTriple) -> String {
    fn term(t: &MTerm) -> String {
        match t {
            MTerm::Iri(i) => format!("<{i}>"),
            MTerm::Bnode(b) => format!("_:{b}"),
            MTerm::Lit(l, d) if d == XSD_STRING => format!("\"{l}\""),
            MTerm::Lit(l, d) => format!("\"{l}\"^^<{d}>"),
            MTerm::Lang(l, t) => format!("\"{l}\"@{t}"),
            _ => panic!("ORACLE: term kind not used in stream items"),
        }
    }
    format!("{} {} {}.\n", term(&t[0]), term(&t[1]), term(&t[2]))
}

// ---------------------------------------------------------------------------------------------
// the scenario

fn draw_items_multi(ctx: &mut Ctx, n: usize) -> Vec<MTriple> {
    // one shared subject; the id is carried by the object; few predicates so that `,` and `;` mix
    let preds = ["http://ex.org/p", "http://ex.org/q"];
    let mut ids: Vec<u64> = (0..n as u64).collect();
    for i in (1..ids.len()).rev() {
        let j = ctx.tape.below(i + 1);
        ids.swap(i, j);
    }
    ids.iter()
        .map(|id| {
            [
                MTerm::iri(MULTI_SUBJECT),
                MTerm::iri(preds[ctx.tape.below(preds.len())]),
                MTerm::Iri(format!("{SUBJ_PREFIX}{id}")),
            ]
        })
        .collect()
}

fn draw_items(ctx: &mut Ctx, n: usize) -> Vec<MTriple> {
    // unique subject per item (the id), few predicates/objects so that terms collide
    let preds = ["http://ex.org/p", "http://ex.org/q"];
    let objs = [
        MTerm::iri("http://ex.org/o"),
        MTerm::iri("http://ex.org/s0"),
        MTerm::lit("v", XSD_STRING),
        MTerm::lit("1", "http://www.w3.org/2001/XMLSchema#integer"),
        MTerm::Lang("w".into(), "en".into()),
        MTerm::bn("b"),
    ];
    let mut ids: Vec<u64> = (0..n as u64).collect();
    // source order is not id order
    for i in (1..ids.len()).rev() {
        let j = ctx.tape.below(i + 1);
        ids.swap(i, j);
    }
    ids.iter()
        .map(|id| {
            [
                MTerm::Iri(format!("{SUBJ_PREFIX}{id}")),
                MTerm::iri(preds[ctx.tape.below(preds.len())]),
                objs[ctx.tape.below(objs.len())].clone(),
            ]
        })
        .collect()
}

fn run_c15(ctx: &mut Ctx) -> Verdict {
    let src = [
        SrcKind::Iter,
        SrcKind::Iter,
        SrcKind::Batch,
        SrcKind::Batch,
        SrcKind::Iter,
        SrcKind::NtParser,
        SrcKind::TurtleParser,
        SrcKind::TurtleMulti,
        SrcKind::XmlParser,
        SrcKind::VecGraph,
        SrcKind::FastGraph,
        SrcKind::JsonLdParser,
        SrcKind::NqParser,
        SrcKind::GnqParser,
        SrcKind::TrigParser,
    ][ctx.tape.below(15)];
    let max_depth = if matches!(src, SrcKind::Iter | SrcKind::Batch) { 3 } else { 1 };
    let depth = ctx.tape.below(max_depth + 1);
    let mut consumer = CONSUMERS[ctx.tape.below(CONSUMERS.len())];
    if consumer.needs_iter() && !matches!(src, SrcKind::Iter | SrcKind::Batch | SrcKind::TurtleMulti) {
        consumer = Consumer::TryForEach;
    }
    let n = ctx.tape.below(9);
    let mut items = if src == SrcKind::TurtleMulti {
        draw_items_multi(ctx, n)
    } else {
        draw_items(ctx, n)
    };
    if src == SrcKind::JsonLdParser {
        // the JSON-LD parser relabels blank nodes: keep ground items
        for t in &mut items {
            if t[2].is_bnode() {
                t[2] = MTerm::iri("http://ex.org/o2");
            }
        }
    }
    let mut ops: Vec<(OpKind, u64, u8)> = (0..depth)
        .map(|_| {
            let kind = [OpKind::Filter, OpKind::Map, OpKind::FilterMap][ctx.tape.below(3)];
            // masks: mostly dense so that items survive; 0 on the tape = keep everything
            let mask = !ctx.tape.draw(256) & !(ctx.tape.draw(256) & ctx.tape.draw(256));
            (kind, mask, ctx.tape.below(4) as u8)
        })
        .collect();
    if consumer.needs_iter() {
        // IntoIterator exists for chains ending in map / filter_map only
        match ops.last_mut() {
            Some(last) if last.0 == OpKind::Filter => last.0 = OpKind::FilterMap,
            Some(_) => {}
            None => ops.push((OpKind::Map, !0, 1)),
        }
    }
    let qops: Vec<(OpKind, u64, u8)> = if consumer.quad_side() {
        (0..ctx.tape.below(3))
            .map(|_| {
                let kind = [OpKind::Filter, OpKind::Map, OpKind::FilterMap][ctx.tape.below(3)];
                let mask = !ctx.tape.draw(256) & !(ctx.tape.draw(256) & ctx.tape.draw(256));
                (kind, mask, 4 + ctx.tape.below(4) as u8)
            })
            .collect()
    } else {
        vec![]
    };
    let ops_model = ops
        .iter()
        .chain(qops.iter())
        .map(|(kind, mask, k)| Op {
            kind: *kind,
            mask: *mask,
            k: *k,
            calls: Rc::new(Cell::new(0)),
        })
        .collect::<Vec<_>>();
    let (expected, _) = model_chain(&items, &ops_model);
    // target pre-population: some of the expected items (so that insertions are not all
    // effective / removals not all void) plus a foreign one
    let mut pre: Vec<MTriple> = vec![];
    if matches!(
        consumer.oracle_equiv(),
        Consumer::InsertVec | Consumer::InsertBTree | Consumer::InsertHash | Consumer::InsertFastTiny(_) | Consumer::InsertLightTiny(_) | Consumer::RemoveVec | Consumer::RemoveFast
            | Consumer::InsertFlaky | Consumer::RemoveFlaky | Consumer::QInsertFlaky | Consumer::QRemoveFlaky
    ) {
        for t in &expected {
            if ctx.tape.chance(1, 3) {
                pre.push(t.clone());
            }
        }
        if ctx.tape.flag() {
            pre.push([MTerm::iri("http://ex.org/s63"), MTerm::iri("http://ex.org/p"), MTerm::iri("http://ex.org/o")]);
        }
        if let Consumer::InsertFastTiny(i) | Consumer::InsertLightTiny(i) = consumer.oracle_equiv() {
            // pre-population must fit
            while index_full_at(&[], &pre, TINY_CAPS[i]).is_some() {
                pre.pop();
            }
        }
    }
    let noise = Noise::draw(&mut ctx.tape, true);
    let batch: Vec<usize> = (0..ctx.tape.range(1, 3)).map(|_| ctx.tape.range(1, 4)).collect();
    let setup = Setup {
        hs: ctx.tape.draw(1 << 32),
        batch,
        src,
        items,
        ops,
        qops,
        consumer,
        pre,
        noise,
    };
    let mut chain_code: String = setup.ops.iter().map(|o| o.0.code() as char).collect();
    if !setup.qops.is_empty() {
        chain_code.push('|');
        chain_code.extend(setup.qops.iter().map(|o| o.0.code() as char));
        ctx.probe("quad_side_adapters");
    }
    ctx.sig(&format!("{:?}/{chain_code}/{:?}", setup.src, setup.consumer));
    ctx.sig_u(n as u64);
    ctx.ops += 1;
    let head = format!(
        "source={:?} chain=[{chain_code}] consumer={:?} items={} delivered={} pre={}",
        setup.src,
        setup.consumer,
        fmt_ts(&setup.items),
        fmt_ts(&expected),
        fmt_ts(&setup.pre)
    );
    ev!(ctx, "{head}");
    ctx.sample(|| head.clone());
    ctx.probe(match setup.src {
        SrcKind::Iter => "source_iterator",
        SrcKind::Batch => "source_batching",
        SrcKind::NtParser => "source_nt_parser",
        SrcKind::TurtleParser => "source_turtle_parser",
        SrcKind::TurtleMulti => "source_turtle_parser_multi_object_statements",
        SrcKind::XmlParser => "source_rdfxml_parser",
        SrcKind::JsonLdParser => "source_jsonld_parser_(buffering)",
        SrcKind::NqParser => "source_nq_parser",
        SrcKind::GnqParser => "source_gnq_parser",
        SrcKind::TrigParser => "source_trig_parser",
        SrcKind::VecGraph => "source_vec_graph",
        SrcKind::FastGraph => "source_fast_graph",
    });
    ctx.probe(match depth {
        0 => "chain_depth_0",
        1 => "chain_depth_1",
        2 => "chain_depth_2",
        _ => "chain_depth_3",
    });

    // ---- delivery order
    let delivery: Vec<MTriple> = if matches!(setup.src, SrcKind::FastGraph | SrcKind::JsonLdParser) {
        let probe = Setup {
            hs: setup.hs,
            batch: vec![],
            src: setup.src,
            items: setup.items.clone(),
            ops: setup.ops.clone(),
            qops: setup.qops.clone(),
            consumer: if setup.qops.is_empty() { Consumer::TryForEach } else { Consumer::QuadsTry },
            pre: vec![],
            noise: Noise::perfect(),
        };
        let o = execute(&probe, SrcFault::None, SinkFault::None);
        ensure!(
            as_sorted(&o.consumed) == as_sorted(&expected),
            "wrong_items_consumed/observed_order_source/TryForEach",
            "{head}: store source delivered {} but the model says (in some order) {}",
            fmt_ts(&o.consumed),
            fmt_ts(&expected)
        );
        o.consumed
    } else {
        expected.clone()
    };
    let expected = delivery.clone();

    // ---- the fault-free twin
    let twin = execute(&setup, SrcFault::None, SinkFault::None);
    ctx.events += twin.sim_events;
    let case0 = Case {
        delivery: &delivery,
        setup: &setup,
        sf: SrcFault::None,
        kf: SinkFault::None,
        desc: format!("{head}; no fault"),
    };
    check(&case0, &twin, &twin)?;
    let mut executions = 1u64;

    // ---- every single source fault
    let mut src_faults: Vec<SrcFault> = vec![];
    match setup.src {
        SrcKind::Iter | SrcKind::Batch => {
            for k in 0..=n {
                src_faults.push(SrcFault::IterErr(k));
            }
        }
        SrcKind::NtParser | SrcKind::TurtleParser | SrcKind::TurtleMulti | SrcKind::XmlParser | SrcKind::JsonLdParser | SrcKind::NqParser | SrcKind::GnqParser | SrcKind::TrigParser => {
            for k in 0..n {
                src_faults.push(SrcFault::Syntax(k));
            }
            let (doc, ends) = document_for(setup.src, &setup.items, None);
            let mut start = 0;
            for e in &ends {
                for b in [start, (start + e) / 2, e - 1] {
                    src_faults.push(SrcFault::Read(b));
                }
                start = *e;
            }
            src_faults.push(SrcFault::Read(doc.len()));
        }
        _ => {}
    }
    for sf in src_faults {
        let out = execute(&setup, sf, SinkFault::None);
        ctx.events += out.sim_events;
        executions += 1;
        let fired = match sf {
            SrcFault::IterErr(k) => k <= n,
            SrcFault::Syntax(_) => true,
            SrcFault::Read(_) => out.read_fired,
            SrcFault::None => false,
        };
        if fired {
            ctx.fault(match sf {
                SrcFault::IterErr(_) => "source_iterator_error",
                SrcFault::Syntax(_) => "source_syntax_error",
                SrcFault::Read(_) => "source_read_error",
                SrcFault::None => "none",
            });
            ctx.fault_in_op = true;
        } else {
            ctx.probe("fault_position_after_last_item");
        }
        let case = Case {
            delivery: &delivery,
            setup: &setup,
            sf,
            kf: SinkFault::None,
            desc: format!("{head}; source fault {sf:?}"),
        };
        ev!(ctx, "{sf:?} -> {} consumed={}", out.res.name(), out.consumed.len());
        check(&case, &twin, &out)?;
    }

    // ---- every single sink fault
    let mut sink_faults: Vec<SinkFault> = vec![];
    if setup.consumer.closure_can_fail() {
        for j in 0..=expected.len() {
            sink_faults.push(SinkFault::Closure(j));
        }
    }
    if setup.consumer.is_serializer() {
        // every token boundary, one offset inside each token, and the end
        let w = &twin.written;
        let mut offs: BTreeSet<usize> = BTreeSet::new();
        offs.insert(0);
        offs.insert(w.len());
        let mut tok_start = 0;
        for (i, b) in w.iter().enumerate() {
            if matches!(b, b' ' | b'\n' | b'<' | b'>' | b'"' | b'.' | b';') {
                offs.insert(i);
                offs.insert(i + 1);
                offs.insert((tok_start + i) / 2);
                tok_start = i + 1;
            }
        }
        for o in offs {
            sink_faults.push(SinkFault::Write(o));
        }
        sink_faults.push(SinkFault::Flush);
    }
    for kf in sink_faults {
        let out = execute(&setup, SrcFault::None, kf);
        ctx.events += out.sim_events;
        executions += 1;
        let fired = match kf {
            SinkFault::Closure(j) => j < expected.len(),
            SinkFault::Write(_) | SinkFault::Flush => out.write_fired,
            SinkFault::None => false,
        };
        if fired {
            ctx.fault(match kf {
                SinkFault::Closure(_) => "sink_closure_error",
                SinkFault::Write(_) => "sink_write_error",
                SinkFault::Flush => "sink_flush_error",
                SinkFault::None => "none",
            });
            ctx.fault_in_op = true;
        } else {
            ctx.probe("fault_position_after_last_item");
        }
        let case = Case {
            delivery: &delivery,
            setup: &setup,
            sf: SrcFault::None,
            kf,
            desc: format!("{head}; sink fault {kf:?}"),
        };
        ev!(ctx, "{kf:?} -> {} consumed={} written={}", out.res.name(), out.consumed.len(), out.written.len());
        check(&case, &twin, &out)?;
    }
    if let Consumer::InsertFastTiny(i) | Consumer::InsertLightTiny(i) = setup.consumer.oracle_equiv() {
        if index_full_at(&setup.pre, &expected, TINY_CAPS[i]).is_some() {
            ctx.fault("sink_term_index_full");
            ctx.fault_in_op = true;
        }
    }
    ctx.probe_n("pipeline_executions", executions);
    Ok(())
}

fn warmup() {
    // on THIS thread (not on a sub-thread): every parser and serializer once, so that the regex
    // caches of this thread's pool stack exist (see DESIGN.md §11.2)
    let items = vec![
        [MTerm::iri("http://ex.org/s0"), MTerm::iri("http://ex.org/p"), MTerm::Lang("w".into(), "en".into())],
        [MTerm::iri("http://ex.org/s1"), MTerm::iri("http://ex.org/q"), MTerm::lit("1", "http://www.w3.org/2001/XMLSchema#integer")],
        [MTerm::iri("http://ex.org/s2"), MTerm::iri("http://ex.org/q"), MTerm::iri("http://ex.org/o")],
    ];
    for src in [SrcKind::JsonLdParser, SrcKind::NtParser, SrcKind::TurtleParser, SrcKind::XmlParser, SrcKind::NqParser, SrcKind::GnqParser, SrcKind::TrigParser, SrcKind::Iter] {
        for consumer in [Consumer::TryForEach, Consumer::SerNt, Consumer::SerTtl, Consumer::SerTtlPretty, Consumer::SerXml, Consumer::SerNq, Consumer::CollectFast, Consumer::InsertLightTiny(2), Consumer::SerTrig, Consumer::SerTrigPretty, Consumer::QCollectFast, Consumer::QInsertLightTiny(2)] {
            let setup = Setup {
                hs: 0,
                batch: vec![],
                src,
                items: items.clone(),
                ops: vec![(OpKind::Map, !0, 1)],
                qops: vec![],
                consumer,
                pre: vec![],
                noise: Noise::perfect(),
            };
            let _ = execute_inner(&setup, SrcFault::None, SinkFault::None);
        }
    }
    // NB: no sub-threads here. The warm-up threads must get consecutive regex-pool thread ids so
    // that together they populate all 8 pool stacks; a warm-up that spawns threads itself would
    // leave gaps (and, unluckily, could land every warm-up thread on the same stack).
}

fn main() {
    let sc = vec![Scenario {
        property: "C15",
        tag: 0xC15,
        run: run_c15,
        quick_runs: 60_000,
        thorough_runs: 4_000_000,
        level: "fault_enumeration",
        rule: "one run = one pipeline instance (source kind x adapter chain x consumer x <= 8 items, masks and renamings drawn from the tape); inside the run the fault-free twin is executed and then EVERY single fault position is executed and checked against the reference model: iterator Err at k=0..n, syntax error in statement k, read error at 3 byte offsets of every statement, consumer-closure Err at j=0..m, writer error at every token boundary / inside every token / at flush, term-index-full as it emerges from 3 index capacities; coverage.evaluations counts runs, probes.pipeline_executions counts executions of the real code; distinct = distinct (source, chain, consumer, n) signatures; non-trivial = at least one fault fired",
        real_components: &[
            "sophia_api::source::{Source, TripleSource, QuadSource, filter, map, filter_map, convert}",
            "blanket Source impl for Iterator<Item=Result<T,E>>",
            "sophia_rio::parser::StrictRioTripleSource over rio_turtle NT/Turtle parsers",
            "Vec/BTreeSet/HashSet graph impls, sophia_inmem Fast/Light graphs (u32, u16 and tiny indexes)",
            "default insert_all/remove_all/collect_triples/to_quads",
            "NT, NQ, Turtle (streaming, pretty), RDF/XML serializers",
            "MapSourceIterator / FilterMapSourceIterator",
        ],
        stub_components: &[
            "FaultyIter (iterator source failing at item k, counts pulls)",
            "BatchSource (a legal Source delivering several items per step, failing mid-batch)",
            "SimReader / SimWriter",
            "consumer closures failing at invocation j",
            "TinyIdx<5|9|14> (Index impl with small MAX)",
            "Flaky / FlakyDs (stores whose k-th mutation fails, using the DEFAULT insert_all / remove_all of MutableGraph / MutableDataset)",
            "reference model of adapter chains (sim/stream/src/ops.rs)",
        ],
        assumptions: &[
            "single fault per execution (one source fault or one sink fault)",
            "<= 8 items per pipeline, chains up to depth 3 on the iterator source and depth <= 1 on parser and store sources",
            "read errors inside a statement: only prefix-ness and 'nothing beyond the offset' are asserted (the parser decides which statement it was in)",
            "the JSON-LD parser source is documented as buffering: after a source fault nothing may have been delivered (and nothing is required to)",
        ],
        panic_is_violation: true,
        death_is_violation: true,
        shrink_budget: 1500,
        run_timeout_s: 60,
        thorough_extra: None,
        warmup: Some(warmup),
        enumerated: None,
    }];
    simcore::main_with(&sc);
}
