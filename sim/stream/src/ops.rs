//! Data-driven closures used inside adapter chains, and their reference model.
//! filter = membership of the item id in a bit mask; map = a bijective renaming of the predicate;
//! filter_map = both. Items carry a unique id in their subject IRI so that "exactly once, in
//! source order" is checked by comparing id sequences.

use simcore::model::*;
use sophia_api::term::{IriRef, SimpleTerm, Term};
use sophia_api::quad::{Quad, Spog};
use sophia_api::triple::Triple;
use std::cell::Cell;
use std::rc::Rc;

#[derive(Clone, Copy, Debug, PartialEq, Eq)]
pub enum OpKind {
    Filter,
    Map,
    FilterMap,
}

impl OpKind {
    pub fn code(self) -> u8 {
        match self {
            OpKind::Filter => b'F',
            OpKind::Map => b'M',
            OpKind::FilterMap => b'X',
        }
    }
}

#[derive(Clone, Debug)]
pub struct Op {
    pub kind: OpKind,
    pub mask: u64,
    pub k: u8,
    /// how often the closure of this stage was invoked
    pub calls: Rc<Cell<u32>>,
}

pub const SUBJ_PREFIX: &str = "http://ex.org/s";

pub fn id_of_str(iri: &str) -> u64 {
    iri.strip_prefix(SUBJ_PREFIX)
        .and_then(|d| d.parse().ok())
        .unwrap_or(63)
}

pub fn id_of<T: Term>(t: T) -> u64 {
    match t.iri() {
        Some(i) => id_of_str(i.as_str()),
        None => 63,
    }
}

/// The id of an item: carried by its subject, or (multi-object Turtle statements, which share
/// one subject) by its object.
pub fn tid<T: Triple>(t: &T) -> u64 {
    let s = id_of(t.s());
    if s != 63 { s } else { id_of(t.o()) }
}

pub fn keep<T: Triple>(op: &Op, t: &T) -> bool {
    op.calls.set(op.calls.get() + 1);
    (op.mask >> (tid(t) & 63)) & 1 == 1
}

pub fn renamed_predicate(k: u8, p: &str) -> String {
    format!("{p}-m{k}")
}

pub fn rename<T: Triple>(op: &Op, t: T) -> [SimpleTerm<'static>; 3] {
    op.calls.set(op.calls.get() + 1);
    rename_inner(op.k, t)
}

fn rename_inner<T: Triple>(k: u8, t: T) -> [SimpleTerm<'static>; 3] {
    let [s, p, o] = t.to_spo();
    let renamed = p.iri().map(|i| renamed_predicate(k, i.as_str()));
    let p2 = match renamed {
        Some(r) => SimpleTerm::Iri(IriRef::new_unchecked(r.into())),
        None => p.into_term(),
    };
    [s.into_term(), p2, o.into_term()]
}

pub fn fmap<T: Triple>(op: &Op, t: T) -> Option<[SimpleTerm<'static>; 3]> {
    op.calls.set(op.calls.get() + 1);
    if (op.mask >> (tid(&t) & 63)) & 1 == 1 {
        Some(rename_inner(op.k, t))
    } else {
        None
    }
}

// ---------------------------------------------------------------------------------------------
// reference model

pub fn item_id(t: &MTriple) -> u64 {
    let of = |x: &MTerm| match x {
        MTerm::Iri(i) => id_of_str(i),
        _ => 63,
    };
    let s = of(&t[0]);
    if s != 63 { s } else { of(&t[2]) }
}

/// What the chain delivers for these source items, and how often each stage's closure runs.
pub fn model_chain(items: &[MTriple], ops: &[Op]) -> (Vec<MTriple>, Vec<u32>) {
    let mut calls = vec![0u32; ops.len()];
    let mut out = vec![];
    'item: for it in items {
        let mut cur = it.clone();
        for (i, op) in ops.iter().enumerate() {
            calls[i] += 1;
            let id = item_id(&cur) & 63;
            let pass = (op.mask >> id) & 1 == 1;
            match op.kind {
                OpKind::Filter => {
                    if !pass {
                        continue 'item;
                    }
                }
                OpKind::Map => {
                    if let MTerm::Iri(p) = &cur[1] {
                        cur[1] = MTerm::Iri(renamed_predicate(op.k, p));
                    }
                }
                OpKind::FilterMap => {
                    if !pass {
                        continue 'item;
                    }
                    if let MTerm::Iri(p) = &cur[1] {
                        cur[1] = MTerm::Iri(renamed_predicate(op.k, p));
                    }
                }
            }
        }
        out.push(cur);
    }
    (out, calls)
}

// ---------------------------------------------------------------------------------------------
// the same closures on the quad side (after `to_quads()`)

fn qid<Q: Quad>(q: &Q) -> u64 {
    let s = id_of(q.s());
    if s != 63 { s } else { id_of(q.o()) }
}

pub fn keepq<Q: Quad>(op: &Op, q: &Q) -> bool {
    op.calls.set(op.calls.get() + 1);
    (op.mask >> (qid(q) & 63)) & 1 == 1
}

fn renameq_inner<Q: Quad>(k: u8, q: Q) -> Spog<SimpleTerm<'static>> {
    let ([s, p, o], g) = q.to_spog();
    let renamed = p.iri().map(|i| renamed_predicate(k, i.as_str()));
    let p2 = match renamed {
        Some(r) => SimpleTerm::Iri(IriRef::new_unchecked(r.into())),
        None => p.into_term(),
    };
    ([s.into_term(), p2, o.into_term()], g.map(Term::into_term))
}

pub fn renameq<Q: Quad>(op: &Op, q: Q) -> Spog<SimpleTerm<'static>> {
    op.calls.set(op.calls.get() + 1);
    renameq_inner(op.k, q)
}

pub fn fmapq<Q: Quad>(op: &Op, q: Q) -> Option<Spog<SimpleTerm<'static>>> {
    op.calls.set(op.calls.get() + 1);
    if (op.mask >> (qid(&q) & 63)) & 1 == 1 {
        Some(renameq_inner(op.k, q))
    } else {
        None
    }
}

// ---------------------------------------------------------------------------------------------
// type erasure of a chain (compile-time economy)

#[derive(Debug)]
pub struct Marker;
impl std::fmt::Display for Marker {
    fn fmt(&self, f: &mut std::fmt::Formatter<'_>) -> std::fmt::Result {
        write!(f, "consumer failed (error value kept aside)")
    }
}
impl std::error::Error for Marker {}

type StepFn<'a, E> = Box<
    dyn FnMut(
            &mut dyn FnMut([SimpleTerm<'static>; 3]) -> Result<(), Marker>,
        ) -> sophia_api::source::StreamResult<bool, E, Marker>
        + 'a,
>;

/// A chain of real adapters behind one concrete type: each step calls the real chain's
/// `try_for_some_item`; items are handed on as owned triples; the consumer's error value is
/// kept aside and given back unchanged. Consumers are then compiled once per error type instead
/// of once per chain type.
pub struct Erased<'a, E: std::error::Error> {
    step: StepFn<'a, E>,
}

pub fn erase<'a, T>(mut ts: T) -> Erased<'a, T::Error>
where
    T: sophia_api::source::TripleSource + 'a,
{
    Erased {
        step: Box::new(move |f| {
            ts.try_for_some_triple(|t| {
                let [s, p, o] = t.to_spo();
                f([s.into_term(), p.into_term(), o.into_term()])
            })
        }),
    }
}

impl<E> sophia_api::source::Source for Erased<'_, E>
where
    E: std::error::Error + Send + Sync + 'static,
{
    type Item<'x> = [SimpleTerm<'static>; 3];
    type Error = E;

    fn try_for_some_item<E2, F>(&mut self, mut f: F) -> sophia_api::source::StreamResult<bool, E, E2>
    where
        E2: std::error::Error + Send + Sync + 'static,
        F: FnMut(Self::Item<'_>) -> Result<(), E2>,
    {
        use sophia_api::source::StreamError::{SinkError, SourceError};
        let mut slot: Option<E2> = None;
        let r = (self.step)(&mut |t| match f(t) {
            Ok(()) => Ok(()),
            Err(e) => {
                slot = Some(e);
                Err(Marker)
            }
        });
        match r {
            Ok(b) => Ok(b),
            Err(SourceError(e)) => Err(SourceError(e)),
            Err(SinkError(Marker)) => Err(SinkError(
                slot.take().expect("ORACLE: adapter chain reported a sink error the consumer never raised"),
            )),
        }
    }
}
