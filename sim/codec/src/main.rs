//! Codec scenarios: C03 (N-Triples/N-Quads), C04 (Turtle/TriG), C12 (JSON-LD), C18 (RDF/XML),
//! C08 (parser totality). See /verif/DESIGN.md §5.

mod c08;
mod formats;
mod rt;

use formats::*;
use rt::*;
use simcore::ctx::{Ctx, Verdict, Violation};
use simcore::driver::Scenario;
use simcore::r#gen::*;
use simcore::model::*;
use std::collections::BTreeSet;

simcore::install_getrandom!();

// ---------------------------------------------------------------------------------------------
// C03

fn run_c03(ctx: &mut Ctx) -> Verdict {
    let hs = ctx.tape.draw(1 << 32);
    let triples = ctx.tape.flag();
    // C03 quantifies over strict and RDF-star datasets; the generalized *reader* is exercised
    // on them too (it is a shipped N-Quads parser), generalized *data* is out of scope here.
    let (profile, reader, pname) = match ctx.tape.draw(4) {
        0 => (Profile::strict(), NxReader::Strict, "strict"),
        1 => (Profile::star(), NxReader::Strict, "star"),
        2 => (Profile::strict(), NxReader::Generalized, "strict/greader"),
        _ => (Profile::star(), NxReader::Generalized, "star/greader"),
    };
    let (_a, mut input, shapes) = gen_dataset(&mut ctx.tape, &profile);
    if triples {
        for q in &mut input {
            q.1 = None;
        }
    }
    for s in &shapes {
        ctx.probe(s);
    }
    ctx.sig(pname);
    ctx.probe(match pname {
        "strict" => "profile_strict",
        "star" => "profile_star",
        "strict/greader" => "profile_strict_generalized_reader",
        _ => "profile_star_generalized_reader",
    });
    let want: BTreeSet<MQuad> = input.iter().map(norm_quad).collect();
    let _n = input.len();
    let want2 = want.clone();
    let triples_only = triples;
    let doc_check = move |doc: &[u8], statements: usize| -> Result<(), Violation> {
        // one statement per line
        let _ = triples_only;
        let n = statements;
        let lines = doc.iter().filter(|b| **b == b'\n').count();
        if lines != n || (!doc.is_empty() && doc.last() != Some(&b'\n')) {
            return Err(Violation::new(
                "not_one_statement_per_line/nx",
                format!(
                    "{n} statements serialised into {lines} newline-terminated lines:\n{}",
                    excerpt(doc)
                ),
            ));
        }
        // independent reader of the W3C grammar
        match simcore::nq::parse_nquads(doc, true) {
            Err(e) => Err(Violation::new(
                "independent_reader_rejects/nx",
                format!(
                    "line {} col {}: {}\n{}",
                    e.line,
                    e.col,
                    e.msg,
                    excerpt(doc)
                ),
            )),
            Ok(qs) => {
                let got: BTreeSet<MQuad> = qs.into_iter().collect();
                if got != want2 {
                    let missing: Vec<_> = want2.difference(&got).take(3).map(fmt_quad).collect();
                    let extra: Vec<_> = got.difference(&want2).take(3).map(fmt_quad).collect();
                    Err(Violation::new(
                        "independent_reader_differs/nx",
                        format!("lost: {missing:?}; invented: {extra:?}\n{}", excerpt(doc)),
                    ))
                } else {
                    Ok(())
                }
            }
        }
    };
    let fmt = Nx { triples, reader };
    run_roundtrip(
        ctx,
        &RtSpec {
            fmt: &fmt,
            input: &input,
            expect: Expect::Exact(want),
            ser_must_succeed: true,
            doc_check: Some(&doc_check),
            classify: None,
            hash_seed: hs,
        },
    )
}

// ---------------------------------------------------------------------------------------------
// C04

const PREFIX_POOL: &[(&str, &str)] = &[
    ("", "http://example.org/"),
    ("ns", "http://example.org/ns/"),
    ("nsh", "http://example.org/ns#"),
    ("ex", "http://example.org/"),
    ("rdf", "http://www.w3.org/1999/02/22-rdf-syntax-ns#"),
    ("xsd", "http://www.w3.org/2001/XMLSchema#"),
    ("o", "http://other.example/x/"),
    ("u", "urn:x:"),
    ("e2", "http://example.org"),
    ("a.b", "http://example.org/a"),
    ("nsc", "http://example.org/ns/c/"),
    ("\u{e9}", "http://example.org/\u{e9}"),
];

const INDENT_POOL: &[&str] = &["  ", "", " ", "\t", "    ", " \t", "\n"];

fn draw_prefixes(ctx: &mut Ctx) -> Vec<(String, String)> {
    match ctx.tape.draw(4) {
        0 => vec![
            ("rdf".into(), RDF.into()),
            ("rdfs".into(), "http://www.w3.org/2000/01/rdf-schema#".into()),
            ("xsd".into(), XSD.into()),
        ],
        1 => vec![],
        _ => {
            let n = ctx.tape.range(1, 6);
            let mut out: Vec<(String, String)> = vec![];
            for _ in 0..n {
                let (p, ns) = PREFIX_POOL[ctx.tape.below(PREFIX_POOL.len())];
                if !out.iter().any(|(q, _)| q == p) {
                    out.push((p.to_string(), ns.to_string()));
                }
            }
            out
        }
    }
}

fn has_quoted(q: &MQuad) -> bool {
    q.0.iter().any(|t| matches!(t, MTerm::Triple(_))) || matches!(q.1, Some(MTerm::Triple(_)))
}

fn run_c04(ctx: &mut Ctx) -> Verdict {
    let hs = ctx.tape.draw(1 << 32);
    let trig = ctx.tape.flag();
    let pretty = ctx.tape.flag();
    let prefixes = draw_prefixes(ctx);
    let indentation = INDENT_POOL[ctx.tape.below(INDENT_POOL.len())].to_string();
    let generalized_reader = ctx.tape.chance(1, 4);
    let star = ctx.tape.flag();
    let mut profile = if star { Profile::star() } else { Profile::strict() };
    profile.graphs = trig;
    let (_a, input, shapes) = gen_dataset(&mut ctx.tape, &profile);
    for s in &shapes {
        ctx.probe(s);
    }
    ctx.probe(if pretty { "pretty" } else { "streaming" });
    ctx.probe(if trig { "trig" } else { "turtle" });
    if input.iter().any(has_quoted) {
        ctx.probe("quoted_triples_present");
    }
    let want: BTreeSet<MQuad> = input.iter().map(norm_quad).collect();
    let fmt = Ttl {
        trig,
        pretty,
        prefixes,
        indentation,
        generalized_reader,
    };
    run_roundtrip(
        ctx,
        &RtSpec {
            fmt: &fmt,
            input: &input,
            expect: Expect::Iso(want),
            ser_must_succeed: true,
            doc_check: None,
            classify: None,
            hash_seed: hs,
        },
    )
}

// ---------------------------------------------------------------------------------------------
// C18

fn is_name_start(c: char) -> bool {
    matches!(c, 'A'..='Z' | '_' | 'a'..='z' | '\u{C0}'..='\u{D6}' | '\u{D8}'..='\u{F6}'
        | '\u{F8}'..='\u{2FF}' | '\u{370}'..='\u{37D}' | '\u{37F}'..='\u{1FFF}'
        | '\u{200C}'..='\u{200D}' | '\u{2070}'..='\u{218F}' | '\u{2C00}'..='\u{2FEF}'
        | '\u{3001}'..='\u{D7FF}' | '\u{F900}'..='\u{FDCF}' | '\u{FDF0}'..='\u{FFFD}'
        | '\u{10000}'..='\u{EFFFF}')
}
fn is_name_char(c: char) -> bool {
    is_name_start(c)
        || matches!(c, '-' | '.' | '0'..='9' | '\u{B7}' | '\u{300}'..='\u{36F}' | '\u{203F}'..='\u{2040}')
}

/// Can this IRI be written as an XML qualified name (non-empty namespace + NCName local part)?
fn qname_splittable(iri: &str) -> bool {
    let chars: Vec<(usize, char)> = iri.char_indices().collect();
    // longest NCName suffix
    let mut start = chars.len();
    while start > 0 && is_name_char(chars[start - 1].1) {
        start -= 1;
    }
    // move forward to the first NameStartChar within the suffix
    while start < chars.len() && !is_name_start(chars[start].1) {
        start += 1;
    }
    start < chars.len() && start > 0
}

fn run_c18(ctx: &mut Ctx) -> Verdict {
    let hs = ctx.tape.draw(1 << 32);
    let indentation = ctx.tape.below(9);
    let mut profile = Profile::strict();
    profile.graphs = false;
    profile.xml_chars = true;
    profile.star = ctx.tape.chance(1, 8);
    let (_a, mut input, shapes) = gen_dataset(&mut ctx.tape, &profile);
    for s in &shapes {
        ctx.probe(s);
    }
    // known findings in rio_xml (see known_findings.json): blank node labels that are not
    // NCNames, rdf:li as predicate, whitespace-only text. Generated in 1 run out of 8 only.
    if !ctx.tape.chance(1, 8) {
        let li = format!("{RDF}li");
        input = input
            .iter()
            .map(|q| {
                let mut q = map_quad_bnodes(q, &|l| {
                    if l.starts_with(|c: char| c.is_ascii_digit()) {
                        format!("n{l}")
                    } else {
                        l.to_string()
                    }
                });
                if q.0[1] == MTerm::Iri(li.clone()) {
                    q.0[1] = MTerm::Iri(format!("{RDF}value"));
                }
                if let MTerm::Lit(lex, _) | MTerm::Lang(lex, _) = &mut q.0[2] {
                    if !lex.is_empty() && lex.chars().all(char::is_whitespace) {
                        lex.push('x');
                    }
                }
                q
            })
            .collect();
    } else {
        ctx.probe("known_finding_triggers_allowed");
    }
    let expressible: Vec<MQuad> = input.iter().filter(|q| !has_quoted(q)).cloned().collect();
    if expressible.len() != input.len() {
        ctx.probe("inexpressible_triples_present");
    }
    let must = expressible.len() == input.len() && expressible.iter().all(|q| match &q.0[1] {
        MTerm::Iri(i) => qname_splittable(i),
        _ => false,
    });
    ctx.probe(if must { "domain_must_succeed" } else { "domain_may_refuse" });
    let want: BTreeSet<MQuad> = expressible.iter().map(norm_quad).collect();
    let fmt = Xml { indentation };
    let classify = |want: &BTreeSet<MQuad>, got: &BTreeSet<MQuad>| -> Option<&'static str> {
        // is the only difference that whitespace-only text came back empty?
        let blank = |q: &MQuad| -> MQuad {
            let mut q = q.clone();
            if let MTerm::Lit(lex, _) | MTerm::Lang(lex, _) = &mut q.0[2] {
                // XML white space (S ::= #x20 | #x9 | #xD | #xA), not Unicode's
                if lex.chars().all(|c| matches!(c, ' ' | '\t' | '\r' | '\n')) {
                    lex.clear();
                }
            }
            q
        };
        // (the finding is that such text comes back EMPTY: what the parser returned is taken as
        // it is; whitespace-only text coming back as other whitespace would be something else)
        let w2: BTreeSet<MQuad> = want.iter().map(blank).collect();
        if &w2 != want && isomorphic(&w2, got).is_yes() {
            return Some("whitespace_only_text_lost");
        }
        None
    };
    run_roundtrip(
        ctx,
        &RtSpec {
            fmt: &fmt,
            input: &input,
            expect: Expect::Iso(want),
            ser_must_succeed: must,
            doc_check: None,
            classify: Some(&classify),
            hash_seed: hs,
        },
    )
}

// ---------------------------------------------------------------------------------------------
// C12

const JSON_CANON: &[&str] = &["{\"a\":1}", "[1,2]", "null", "true", "1", "\"x\"", "{}", "[]", "{\"a\":[null,\"b\"]}"];
const RDF_JSON: &str = "http://www.w3.org/1999/02/22-rdf-syntax-ns#JSON";

fn jsonld_expressible(q: &MQuad) -> bool {
    let abs = |i: &str| i.contains(':');
    let s_ok = match &q.0[0] {
        MTerm::Iri(i) => abs(i),
        MTerm::Bnode(_) => true,
        _ => false,
    };
    let p_ok = matches!(&q.0[1], MTerm::Iri(i) if abs(i));
    let o_ok = match &q.0[2] {
        MTerm::Iri(i) => abs(i),
        MTerm::Bnode(_) | MTerm::Lit(..) | MTerm::Lang(..) => true,
        _ => false,
    };
    let g_ok = match &q.1 {
        None | Some(MTerm::Bnode(_)) => true,
        Some(MTerm::Iri(i)) => abs(i),
        _ => false,
    };
    s_ok && p_ok && o_ok && g_ok
}

fn fix_json_literals(t: &mut MTerm, ctx: &mut Ctx) {
    match t {
        MTerm::Lit(lex, dt) if dt == RDF_JSON => {
            if !JSON_CANON.contains(&lex.as_str()) {
                *lex = JSON_CANON[ctx.tape.below(JSON_CANON.len())].to_string();
            }
        }
        MTerm::Triple(tr) => {
            for x in tr.iter_mut() {
                fix_json_literals(x, ctx);
            }
        }
        _ => {}
    }
}

/// What a JSON-LD round trip in compound-literal mode can give back given the reader's defect:
/// every well-formed compound literal node (blank node whose only statements in its graph are
/// one plain rdf:value, one plain rdf:direction "ltr"/"rtl" and at most one plain rdf:language
/// holding a valid tag) that is referenced in that graph is written as a value object; the
/// reader then creates one fresh blank node per reference and none of the node's own triples.
fn fold_compound_literals(want: &BTreeSet<MQuad>) -> (BTreeSet<MQuad>, bool) {
    let rdfp = |l: &str| MTerm::Iri(format!("{RDF}{l}"));
    let (value, direction, language) = (rdfp("value"), rdfp("direction"), rdfp("language"));
    let graph_names: BTreeSet<&MTerm> = want.iter().filter_map(|q| q.1.as_ref()).collect();
    let mut groups: std::collections::BTreeMap<(Option<MTerm>, MTerm), Vec<&MQuad>> = Default::default();
    for q in want {
        if q.0[0].is_bnode() {
            groups.entry((q.1.clone(), q.0[0].clone())).or_default().push(q);
        }
    }
    let plain = |t: &MTerm| match t {
        MTerm::Lit(lex, dt) if dt == XSD_STRING => Some(lex.clone()),
        _ => None,
    };
    let mut folded: BTreeSet<(Option<MTerm>, MTerm)> = BTreeSet::new();
    for ((g, b), qs) in &groups {
        let vals: Vec<_> = qs.iter().filter(|q| q.0[1] == value).collect();
        let dirs: Vec<_> = qs.iter().filter(|q| q.0[1] == direction).collect();
        let langs: Vec<_> = qs.iter().filter(|q| q.0[1] == language).collect();
        let well_formed = vals.len() == 1
            && dirs.len() == 1
            && langs.len() <= 1
            && qs.len() == 2 + langs.len()
            && plain(&vals[0].0[2]).is_some()
            && plain(&dirs[0].0[2]).is_some_and(|d| d == "ltr" || d == "rtl")
            && langs.iter().all(|q| plain(&q.0[2]).is_some_and(|l| sophia_api::term::LanguageTag::new(l.as_str()).is_ok()));
        // in the default graph a blank node that is also a graph name carries its "@graph" entry
        let is_graph_name = g.is_none() && graph_names.contains(b);
        let referenced = want.iter().any(|q| &q.1 == g && &q.0[2] == b);
        if well_formed && !is_graph_name && referenced {
            folded.insert((g.clone(), b.clone()));
        }
    }
    if folded.is_empty() {
        return (want.clone(), false);
    }
    let mut out = BTreeSet::new();
    let mut fresh = 0;
    for q in want {
        if folded.contains(&(q.1.clone(), q.0[0].clone())) {
            continue;
        }
        if folded.contains(&(q.1.clone(), q.0[2].clone())) {
            fresh += 1;
            out.insert(([q.0[0].clone(), q.0[1].clone(), MTerm::Bnode(format!("compound{fresh}"))], q.1.clone()));
        } else {
            out.insert(q.clone());
        }
    }
    (out, true)
}

fn run_c12(ctx: &mut Ctx) -> Verdict {
    let hs = ctx.tape.draw(1 << 32);
    let mut fmt = JsonLd {
        spaces: ctx.tape.below(5) as u16,
        mode_1_0: ctx.tape.flag(),
        use_rdf_type: ctx.tape.flag(),
        dir: [Dir::None, Dir::I18n, Dir::Compound][ctx.tape.below(3)],
    };
    let mut profile = if ctx.tape.chance(1, 4) {
        let mut p = Profile::generalized();
        p.rel_iris = false;
        p
    } else {
        Profile::strict()
    };
    profile.max_quads = 10;
    let (_a, mut input, shapes) = gen_dataset(&mut ctx.tape, &profile);
    for q in &mut input {
        for t in q.0.iter_mut() {
            fix_json_literals(t, ctx);
        }
    }
    for s in &shapes {
        ctx.probe(s);
    }
    // known finding (rdf-types forgets '.' in BLANK_NODE_LABEL): keep dotted labels in 1 run
    // out of 8 only, so that the other runs explore past it
    // (and only where the label is not part of a list structure: the finding turns the node into
    // an IRI or drops it, and what folding then does around it says nothing new)
    let dotted_in_list = {
        let (first, rest) = (MTerm::Iri(format!("{RDF}first")), MTerm::Iri(format!("{RDF}rest")));
        input.iter().any(|q| {
            (q.0[1] == first || q.0[1] == rest)
                && [&q.0[0], &q.0[2]].iter().any(|t| matches!(t, MTerm::Bnode(l) if l.contains('.')))
        })
    };
    if !ctx.tape.chance(1, 8) || dotted_in_list {
        input = input
            .iter()
            .map(|q| map_quad_bnodes(q, &|l| l.replace('.', "-")))
            .collect();
    } else if input.iter().any(|q| {
        let mut ls = BTreeSet::new();
        quad_bnodes(q, &mut ls);
        ls.iter().any(|l| l.contains('.'))
    }) {
        ctx.probe("dotted_bnode_labels_present");
        // a run carries the trigger of at most one listed finding (their effects compound in
        // ways a classifier can not untangle): with dotted labels present, no direction
        // folding and no typed list node
        fmt.dir = Dir::None;
        let (ty, list) = (MTerm::Iri(format!("{RDF}type")), MTerm::Iri(format!("{RDF}List")));
        input.retain(|q| !(q.0[0].is_bnode() && q.0[1] == ty && q.0[2] == list));
    }
    let expressible: Vec<MQuad> = input.iter().filter(|q| jsonld_expressible(q)).cloned().collect();
    if expressible.len() != input.len() {
        ctx.probe("inexpressible_quads_present");
    }
    if expressible.iter().any(|q| q.1.is_some()) {
        ctx.probe("named_graphs_present");
    }
    {
        // rare conjunctions worth knowing about (reach, not oracle)
        let first = MTerm::Iri(format!("{RDF}first"));
        let ty = MTerm::Iri(format!("{RDF}type"));
        let is_list_node = |b: &MTerm, g: &Option<MTerm>| expressible.iter().any(|q| &q.1 == g && &q.0[0] == b && q.0[1] == first);
        if expressible.iter().any(|q| q.0[1] == ty && q.0[2].is_bnode() && is_list_node(&q.0[2], &q.1)) {
            ctx.probe("list_node_is_object_of_rdf_type");
        }
        if expressible.iter().any(|q| q.0[2].is_bnode() && !is_list_node(&q.0[2], &q.1) && expressible.iter().any(|x| x.1 != q.1 && x.0[0] == q.0[2] && x.0[1] == first)) {
            ctx.probe("list_node_referenced_from_another_graph");
        }
        if expressible.iter().any(|q| q.0[0].is_bnode() && q.0[1] == first && q.0[2] == q.0[0]) {
            ctx.probe("list_node_is_its_own_first");
        }
        let list = MTerm::Iri(format!("{RDF}List"));
        if expressible.iter().any(|q| {
            q.0[0].is_bnode()
                && q.0[1] == ty
                && q.0[2] == list
                && expressible.iter().any(|x| x.1 == q.1 && x.0[0] == q.0[0] && x.0[1] == ty && x.0[2] != list && matches!(x.0[2], MTerm::Iri(_)))
                && is_list_node(&q.0[0], &q.1)
        }) {
            ctx.probe("list_node_typed_list_and_other");
        }
    }
    let want: BTreeSet<MQuad> = expressible.iter().map(norm_quad).collect();
    let compound_mode = fmt.dir == Dir::Compound;
    let i18n_mode = fmt.dir == Dir::I18n;
    let classify = |want0: &BTreeSet<MQuad>, got0: &BTreeSet<MQuad>| -> Option<&'static str> {
        // known finding (rdf-types 0.15 forgets '.' in BLANK_NODE_LABEL): a blank node whose
        // label contains a dot comes back as the IRI <x-string:///_:label>, or not at all when
        // that string is not even an IRI. What does not mention such a label must be intact
        // (up to the other listed findings, which are looked for on the remainder).
        let mentions = |q: &MQuad, f: &dyn Fn(&MTerm) -> bool| q.0.iter().any(f) || q.1.as_ref().is_some_and(f);
        let dotted = |t: &MTerm| matches!(t, MTerm::Bnode(l) if l.contains('.'));
        let xstring = |t: &MTerm| matches!(t, MTerm::Iri(i) if i.starts_with("x-string:///_:"));
        let has_dotted = want0.iter().any(|q| mentions(q, &dotted));
        let (want_r, got_r): (BTreeSet<MQuad>, BTreeSet<MQuad>) = if has_dotted {
            (
                want0.iter().filter(|q| !mentions(q, &dotted)).cloned().collect(),
                got0.iter().filter(|q| !mentions(q, &xstring)).cloned().collect(),
            )
        } else {
            (want0.clone(), got0.clone())
        };
        if has_dotted && isomorphic(&want_r, &got_r).is_yes() {
            return Some("dotted_bnode_label");
        }
        let (want, got) = (&want_r, &got_r);
        let relabel = |l: &'static str| if has_dotted { "dotted_bnode_label" } else { l };
        let (w1, folded) = if compound_mode { fold_compound_literals(want) } else { (want.clone(), false) };
        if folded && isomorphic(&w1, got).is_yes() {
            return Some(relabel("compound_literal_triples_lost"));
        }
        // known finding (json-ld-core 0.15.1 `fn i18n`): a direction without language is read
        // back as i18n#rtl instead of i18n#_rtl
        let mut i18n_changed = false;
        let w1: BTreeSet<MQuad> = if i18n_mode {
            const NS: &str = "https://www.w3.org/ns/i18n#";
            w1.iter()
                .map(|q| {
                    let mut q = q.clone();
                    if let MTerm::Lit(_, dt) = &mut q.0[2] {
                        if dt == &format!("{NS}_ltr") || dt == &format!("{NS}_rtl") {
                            *dt = dt.replace("#_", "#");
                            i18n_changed = true;
                        }
                    }
                    q
                })
                .collect()
        } else {
            w1
        };
        if i18n_changed && isomorphic(&w1, got).is_yes() {
            return Some(relabel("i18n_direction_without_language"));
        }
        // is the only difference that `_:l rdf:type rdf:List` quads of compacted lists are gone?
        let ty = MTerm::Iri(format!("{RDF}type"));
        let list = MTerm::Iri(format!("{RDF}List"));
        // (only of well-formed list nodes: exactly one rdf:first, one rdf:rest and that type in
        // their graph; which of them were folded depends on their parents, so every non-empty
        // subset of the candidates is tried)
        let first = MTerm::Iri(format!("{RDF}first"));
        let rest = MTerm::Iri(format!("{RDF}rest"));
        let candidates: Vec<&MQuad> = w1
            .iter()
            .filter(|q| q.0[0].is_bnode() && q.0[1] == ty && q.0[2] == list)
            .filter(|q| {
                let mine: Vec<&MQuad> = w1.iter().filter(|x| x.1 == q.1 && x.0[0] == q.0[0]).collect();
                mine.len() == 3
                    && mine.iter().filter(|x| x.0[1] == first).count() == 1
                    && mine.iter().filter(|x| x.0[1] == rest).count() == 1
            })
            .collect();
        if !candidates.is_empty() && candidates.len() <= 8 {
            for mask in 1u32..(1 << candidates.len()) {
                let dropped: BTreeSet<&MQuad> =
                    candidates.iter().enumerate().filter(|(i, _)| mask & (1 << i) != 0).map(|(_, q)| *q).collect();
                if w1.len() - dropped.len() != got.len() {
                    continue;
                }
                let w2: BTreeSet<MQuad> = w1.iter().filter(|q| !dropped.contains(q)).cloned().collect();
                if isomorphic(&w2, got).is_yes() {
                    return Some(relabel(if folded {
                        "compound_literal_triples_lost"
                    } else if i18n_changed {
                        "i18n_direction_without_language"
                    } else {
                        "rdf_list_type_dropped"
                    }));
                }
            }
        }
        None
    };
    run_roundtrip(
        ctx,
        &RtSpec {
            fmt: &fmt,
            input: &input,
            expect: Expect::Iso(want),
            ser_must_succeed: true,
            doc_check: None,
            classify: Some(&classify),
            hash_seed: hs,
        },
    )
}

const STREAM_STUBS: &[&str] = &[
    "SimWriter (io::Write: short writes, EINTR, hard write/flush errors, sticky)",
    "SimReader (io::Read+BufRead: chunking, EINTR, hard read errors, sticky)",
    "workload generator (sim/core/src/gen.rs)",
    "independent term model / isomorphism / N-Quads reader (oracles)",
];

fn base(property: &'static str, tag: u64, run: fn(&mut Ctx) -> Verdict) -> Scenario {
    Scenario {
        property,
        tag,
        run,
        quick_runs: 100_000,
        thorough_runs: 5_000_000,
        level: "exploration",
        rule: "",
        real_components: &[],
        stub_components: STREAM_STUBS,
        assumptions: &[
            "seams honour std contracts (write accepts >=1 byte unless it errs; hard errors sticky; EINTR bursts <= 3)",
            "single hard fault per direction per run",
            "datasets sampled from a small alphabet generator (input sampling, not enumeration); <= 8 blank nodes so the exact isomorphism oracle is cheap",
        ],
        panic_is_violation: true,
        death_is_violation: true,
        shrink_budget: 2500,
        run_timeout_s: 30,
        thorough_extra: None,
        warmup: Some(warmup),
        enumerated: None,
    }
}

/// Touch every serializer and parser once so that lazy statics (regexes, vocabularies, tokio
/// internals) exist before the first measured run of this process.
fn warmup() {
    use simcore::seams::{SimReader, SimWriter};
    // every term kind, every abbreviation path, every validator
    let x = |l: &str| MTerm::iri(&format!("http://example.org/{l}"));
    let xsd = |l: &str| format!("http://www.w3.org/2001/XMLSchema#{l}");
    let mut q: Vec<MQuad> = vec![
        ([MTerm::bn("b"), x("p"), MTerm::Lang("x".into(), "en-US".into())], None),
        ([x("s"), x("p"), MTerm::lit("1", &xsd("integer"))], Some(x("g"))),
        ([x("s"), x("p"), MTerm::lit("1.5", &xsd("decimal"))], Some(MTerm::bn("g"))),
        ([x("s"), x("p"), MTerm::lit("1e3", &xsd("double"))], None),
        ([x("s"), x("p"), MTerm::lit("true", &xsd("boolean"))], None),
        ([x("s"), x("p"), MTerm::lit("a\"b\n", XSD_STRING)], None),
        ([x("s"), MTerm::iri("http://www.w3.org/1999/02/22-rdf-syntax-ns#type"), x("ns#T")], None),
        ([x("s"), x("p"), MTerm::bn("l")], None),
        ([MTerm::bn("l"), MTerm::iri("http://www.w3.org/1999/02/22-rdf-syntax-ns#first"), x("i")], None),
        ([MTerm::bn("l"), MTerm::iri("http://www.w3.org/1999/02/22-rdf-syntax-ns#rest"), MTerm::iri("http://www.w3.org/1999/02/22-rdf-syntax-ns#nil")], None),
        ([MTerm::triple(x("a"), x("b"), MTerm::bn("c")), x("p"), MTerm::triple(x("a"), x("b"), MTerm::lit("z", XSD_STRING))], None),
        ([MTerm::Var("v".into()), MTerm::bn("p"), MTerm::iri("rel")], Some(MTerm::lit("g", XSD_STRING))),
        ([x("s"), x("p"), MTerm::lit("{\"a\":1}", "http://www.w3.org/1999/02/22-rdf-syntax-ns#JSON")], None),
        ([x("s"), x("p"), MTerm::lit("x", "https://www.w3.org/ns/i18n#en_ltr")], None),
    ];
    for i in IRI_POOL.iter().take(30) {
        q.push(([MTerm::iri(i), MTerm::iri(i), MTerm::iri(i)], None));
    }
    let strict: Vec<MQuad> = q
        .iter()
        .filter(|q| jsonld_expressible(q))
        .cloned()
        .collect();
    let fmts: Vec<Box<dyn Format>> = vec![
        Box::new(Nx { triples: false, reader: NxReader::Strict }),
        Box::new(Nx { triples: true, reader: NxReader::Generalized }),
        Box::new(Ttl { trig: true, pretty: true, prefixes: vec![], indentation: " ".into(), generalized_reader: false }),
        Box::new(Ttl { trig: false, pretty: false, prefixes: vec![], indentation: " ".into(), generalized_reader: true }),
        Box::new(Xml { indentation: 1 }),
        Box::new(Ttl { trig: true, pretty: true, prefixes: vec![("".into(), "http://example.org/".into()), ("rdf".into(), RDF.into()), ("xsd".into(), XSD.into())], indentation: " ".into(), generalized_reader: false }),
        Box::new(JsonLd { spaces: 1, mode_1_0: false, use_rdf_type: false, dir: Dir::Compound }),
        Box::new(JsonLd { spaces: 0, mode_1_0: true, use_rdf_type: true, dir: Dir::I18n }),
    ];
    for f in &fmts {
        let w = SimWriter::perfect();
        let _ = f.serialize(&q, w.handle(), 0);
        let _ = f.parse(SimReader::perfect(w.accepted()));
        let w = SimWriter::perfect();
        let _ = f.serialize(&strict, w.handle(), 2);
        let _ = f.parse(SimReader::perfect(w.accepted()));
    }
}

const RT_RULE: &str = "one run = one generated dataset serialised by the real serializer into SimWriter and parsed back by the real parser from SimReader, first over a perfect channel (reference twin, checked for isomorphism with the input restricted to what the format expresses) then over a tape-drawn noisy/faulty channel on each side; distinct = distinct signature (format+configuration, term-kind shape of the input, fault kinds that fired and their position class); non-trivial = a fault or benign noise event fired inside a serializer/parser call, or (fault-free) >= 4 statements and >= 2 probes";

fn scenarios() -> Vec<Scenario> {
    vec![
        Scenario {
            quick_runs: 80_000,
            thorough_runs: 6_000_000,
            rule: RT_RULE,
            real_components: &[
                "sophia_turtle::serializer::{turtle,trig,_pretty}",
                "sophia_turtle::parser::{turtle,trig,gtrig}",
                "sophia_rio adapters",
                "rio_turtle",
            ],
            ..base("C04", 0xC04, run_c04)
        },
        Scenario {
            quick_runs: 150_000,
            thorough_runs: 12_000_000,
            rule: "one run = one document (real serializer output, hand corpus, foreign-syntax corpus, deep nesting or long token) held by simulated storage, corrupted by 0-3 tape-drawn edits (truncation, bit flip, byte replace/insert/delete, dictionary token, duplicated or swapped chunk), parsed one-shot and again through a noisy/failing SimReader; distinct = distinct signature (parser, document origin, corruption kinds, read fault kind and position class); non-trivial = a corruption or channel fault fired, or >= 2 probes",
            real_components: &[
                "sophia_turtle::parser::{nt,nq,gnq,turtle,trig,gtrig}",
                "sophia_xml::parser",
                "sophia_jsonld::JsonLdParser (NoLoader)",
                "sophia_rio::model (Trusted term wrappers)",
                "rio_turtle, rio_xml, quick-xml, json-ld, json-syntax, oxiri",
            ],
            enumerated: Some(simcore::driver::Enumerated {
                count: c08::enum_count,
                run: c08::run_enum,
                what: "every single-edit mutation (truncation, deletion, each of the 8 bit flips, insertion of each of 44 structural bytes) at every byte position of every hand-corpus document, for the parser of that syntax, with and without a base IRI",
            }),
            ..base("C08", 0xC08, c08::run_c08)
        },
        Scenario {
            quick_runs: 250_000,
            thorough_runs: 6_000_000,
            rule: RT_RULE,
            real_components: &[
                "sophia_jsonld::{JsonLdSerializer, serializer::engine, JsonLdParser, parser::adapter}",
                "json-ld, json-syntax, tokio current-thread runtime",
            ],
            ..base("C12", 0xC12, run_c12)
        },
        Scenario {
            quick_runs: 60_000,
            thorough_runs: 4_000_000,
            rule: RT_RULE,
            real_components: &[
                "sophia_xml::{serializer, parser}",
                "sophia_rio adapters",
                "rio_xml, quick-xml",
            ],
            ..base("C18", 0xC18, run_c18)
        },
        Scenario {
        property: "C03",
        tag: 0xC03,
        run: run_c03,
        quick_runs: 200_000,
        thorough_runs: 12_000_000,
        level: "exploration",
        rule: "one run = one generated dataset serialised by the real NT/NQ serializer into SimWriter and parsed back by the real parser from SimReader, first over a perfect channel (reference twin) then over a tape-drawn noisy/faulty channel; distinct = distinct signature (format/profile, fault kinds that fired on each side); non-trivial = a fault or benign noise event fired inside a serializer/parser call, or (fault-free) >= 4 statements and >= 2 probes",
        real_components: &[
            "sophia_turtle::serializer::{nt,nq}",
            "sophia_turtle::parser::{nt,nq,gnq}",
            "sophia_rio adapters",
            "rio_turtle",
            "sophia_api terms",
        ],
        stub_components: STREAM_STUBS,
        assumptions: &[
            "seams honour std contracts (write accepts >=1 byte unless it errs; hard errors sticky; EINTR bursts <= 3)",
            "single hard fault per direction per run",
            "datasets sampled from a small alphabet generator (input sampling, not enumeration)",
        ],
        panic_is_violation: true,
        death_is_violation: true,
        shrink_budget: 2500,
        run_timeout_s: 30,
        thorough_extra: None,
        warmup: Some(warmup),
        enumerated: None,
    }]
}

fn main() {
    simcore::main_with(&scenarios());
}
