//! Codec scenarios: C03 (N-Triples/N-Quads), C04 (Turtle/TriG), C12 (JSON-LD), C18 (RDF/XML),
//! C08 (parser totality). See /verif/DESIGN.md §5.

mod formats;
mod rt;

use formats::*;
use rt::*;
use simcore::ctx::{Ctx, Verdict, Violation};
use simcore::driver::Scenario;
use simcore::r#gen::*;
use simcore::model::*;
use std::collections::BTreeSet;

simcore::install_getrandom!();

// ---------------------------------------------------------------------------------------------
// C03

fn run_c03(ctx: &mut Ctx) -> Verdict {
    let hs = ctx.tape.draw(1 << 32);
    let triples = ctx.tape.flag();
    // C03 quantifies over strict and RDF-star datasets; the generalized *reader* is exercised
    // on them too (it is a shipped N-Quads parser), generalized *data* is out of scope here.
    let (profile, reader, pname) = match ctx.tape.draw(4) {
        0 => (Profile::strict(), NxReader::Strict, "strict"),
        1 => (Profile::star(), NxReader::Strict, "star"),
        2 => (Profile::strict(), NxReader::Generalized, "strict/greader"),
        _ => (Profile::star(), NxReader::Generalized, "star/greader"),
    };
    let (_a, mut input, shapes) = gen_dataset(&mut ctx.tape, &profile);
    if triples {
        for q in &mut input {
            q.1 = None;
        }
    }
    for s in &shapes {
        ctx.probe(s);
    }
    ctx.sig(pname);
    ctx.probe(match pname {
        "strict" => "profile_strict",
        "star" => "profile_star",
        "strict/greader" => "profile_strict_generalized_reader",
        _ => "profile_star_generalized_reader",
    });
    let want: BTreeSet<MQuad> = input.iter().map(norm_quad).collect();
    let n = input.len();
    let want2 = want.clone();
    let doc_check = move |doc: &[u8]| -> Result<(), Violation> {
        // one statement per line
        let lines = doc.iter().filter(|b| **b == b'\n').count();
        if lines != n || (!doc.is_empty() && doc.last() != Some(&b'\n')) {
            return Err(Violation::new(
                "not_one_statement_per_line/nx",
                format!(
                    "{n} statements serialised into {lines} newline-terminated lines:\n{}",
                    excerpt(doc)
                ),
            ));
        }
        // independent reader of the W3C grammar
        match simcore::nq::parse_nquads(doc, true) {
            Err(e) => Err(Violation::new(
                "independent_reader_rejects/nx",
                format!(
                    "line {} col {}: {}\n{}",
                    e.line,
                    e.col,
                    e.msg,
                    excerpt(doc)
                ),
            )),
            Ok(qs) => {
                let got: BTreeSet<MQuad> = qs.into_iter().collect();
                if got != want2 {
                    let missing: Vec<_> = want2.difference(&got).take(3).map(fmt_quad).collect();
                    let extra: Vec<_> = got.difference(&want2).take(3).map(fmt_quad).collect();
                    Err(Violation::new(
                        "independent_reader_differs/nx",
                        format!("lost: {missing:?}; invented: {extra:?}\n{}", excerpt(doc)),
                    ))
                } else {
                    Ok(())
                }
            }
        }
    };
    let fmt = Nx { triples, reader };
    run_roundtrip(
        ctx,
        &RtSpec {
            fmt: &fmt,
            input: &input,
            expect: Expect::Exact(want),
            ser_must_succeed: true,
            doc_check: Some(&doc_check),
            hash_seed: hs,
        },
    )
}

const STREAM_STUBS: &[&str] = &[
    "SimWriter (io::Write: short writes, EINTR, hard write/flush errors, sticky)",
    "SimReader (io::Read+BufRead: chunking, EINTR, hard read errors, sticky)",
    "workload generator (sim/core/src/gen.rs)",
    "independent term model / isomorphism / N-Quads reader (oracles)",
];

fn scenarios() -> Vec<Scenario> {
    vec![Scenario {
        property: "C03",
        tag: 0xC03,
        run: run_c03,
        quick_runs: 200_000,
        thorough_runs: 12_000_000,
        level: "exploration",
        rule: "one run = one generated dataset serialised by the real NT/NQ serializer into SimWriter and parsed back by the real parser from SimReader, first over a perfect channel (reference twin) then over a tape-drawn noisy/faulty channel; distinct = distinct signature (format/profile, fault kinds that fired on each side); non-trivial = a fault or benign noise event fired inside a serializer/parser call, or (fault-free) >= 4 statements and >= 2 probes",
        real_components: &[
            "sophia_turtle::serializer::{nt,nq}",
            "sophia_turtle::parser::{nt,nq,gnq}",
            "sophia_rio adapters",
            "rio_turtle",
            "sophia_api terms",
        ],
        stub_components: STREAM_STUBS,
        assumptions: &[
            "seams honour std contracts (write accepts >=1 byte unless it errs; hard errors sticky; EINTR bursts <= 3)",
            "single hard fault per direction per run",
            "datasets sampled from a small alphabet generator (input sampling, not enumeration)",
        ],
        panic_is_violation: true,
        death_is_violation: true,
        shrink_budget: 2500,
        run_timeout_s: 30,
        thorough_extra: None,
    }]
}

fn main() {
    simcore::main_with(&scenarios());
}
