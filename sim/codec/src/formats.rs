//! Adapters from the uniform `Format` interface to the real serializers and parsers of /repo.
//! Nothing here is a stub: every call goes to the code under test, reading from `SimReader`
//! and writing into `SimWriter`.

use simcore::model::*;
use simcore::seams::{SimReader, SimWriter};
use sophia_api::parser::{QuadParser, TripleParser};
use sophia_api::prefix::{Prefix, PrefixMapPair};
use sophia_api::serializer::{QuadSerializer, TripleSerializer};
use sophia_api::source::{QuadSource, StreamError, TripleSource};
use sophia_api::term::SimpleTerm;
use sophia_iri::Iri;
use std::convert::Infallible;

pub type BoxErr = Box<dyn std::error::Error + Send + Sync + 'static>;

pub enum SerResult {
    Ok,
    Sink(BoxErr),
    Source(BoxErr),
}

pub enum ParseFail {
    Source(BoxErr),
    Sink(BoxErr),
}

pub struct Parsed {
    pub items: Vec<MQuad>,
    pub result: Result<(), ParseFail>,
    /// what the source yielded when it was polled again AFTER it had reported its end or an
    /// error (a consumer is free to do so: `try_for_some_*` answers Ok(false) at the end). Kept
    /// apart from `items`: Rio parsers resume after a syntax error, so these are not part of
    /// the prefix oracles; they must be valid terms, and polling must not panic.
    pub after_end: Vec<MQuad>,
}

/// how many extra polls a finished / failed source receives
const EXTRA_POLLS: usize = 3;

pub trait Format: Sync {
    fn name(&self) -> String;
    /// `src`: 0 = an iterator of quads, 1 = `serialize_dataset/graph` over a Vec-backed store,
    /// 2 = the same over an in-memory Fast store (set order, duplicates merged)
    fn serialize(&self, quads: &[MQuad], w: SimWriter, src: u8) -> SerResult;
    fn parse(&self, r: SimReader) -> Parsed;
    /// the code iterates `HashMap`s: run every call on a fresh thread with the run's hash seed
    fn hash_sensitive(&self) -> bool {
        false
    }
}

fn ser_result<T, E: std::error::Error + Send + Sync + 'static>(
    r: Result<T, StreamError<Infallible, E>>,
) -> SerResult {
    match r {
        Ok(_) => SerResult::Ok,
        Err(StreamError::SinkError(e)) => SerResult::Sink(Box::new(e)),
        Err(StreamError::SourceError(e)) => SerResult::Source(Box::new(e)),
    }
}

type SQuad = ([SimpleTerm<'static>; 3], Option<SimpleTerm<'static>>);

fn squads(quads: &[MQuad]) -> Vec<SQuad> {
    quads.iter().map(quad_to_simple).collect()
}

fn ser_result2<T, E1, E2>(r: Result<T, StreamError<E1, E2>>) -> SerResult
where
    E1: std::error::Error + Send + Sync + 'static,
    E2: std::error::Error + Send + Sync + 'static,
{
    match r {
        Ok(_) => SerResult::Ok,
        Err(StreamError::SinkError(e)) => SerResult::Sink(Box::new(e)),
        Err(StreamError::SourceError(e)) => SerResult::Source(Box::new(e)),
    }
}

/// Serialize quads with a QuadSerializer from the chosen kind of source.
fn ser_quads<S: QuadSerializer>(ser: &mut S, sq: &[SQuad], src: u8) -> SerResult {
    use sophia_api::dataset::MutableDataset;
    match src {
        1 => {
            let d: Vec<SQuad> = sq.to_vec();
            ser_result2(ser.serialize_dataset(&d).map(|_| ()))
        }
        2 => {
            let mut d = sophia_inmem::dataset::FastDataset::new();
            for q in sq {
                d.insert(&q.0[0], &q.0[1], &q.0[2], q.1.as_ref()).expect("ORACLE: FastDataset insert");
            }
            ser_result2(ser.serialize_dataset(&d).map(|_| ()))
        }
        _ => ser_result(ser.serialize_quads(quad_src(sq)).map(|_| ())),
    }
}

/// Serialize the triples (graph names dropped) with a TripleSerializer.
fn ser_triples<S: TripleSerializer>(ser: &mut S, sq: &[SQuad], src: u8) -> SerResult {
    use sophia_api::graph::MutableGraph;
    match src {
        1 => {
            let g: Vec<[SimpleTerm<'static>; 3]> = sq.iter().map(|q| q.0.clone()).collect();
            ser_result2(ser.serialize_graph(&g).map(|_| ()))
        }
        2 => {
            let mut g = sophia_inmem::graph::FastGraph::new();
            for q in sq {
                g.insert(&q.0[0], &q.0[1], &q.0[2]).expect("ORACLE: FastGraph insert");
            }
            ser_result2(ser.serialize_graph(&g).map(|_| ()))
        }
        _ => ser_result(ser.serialize_triples(triple_src(sq)).map(|_| ())),
    }
}

fn quad_src<'a>(
    sq: &'a [SQuad],
) -> impl Iterator<Item = Result<([&'a SimpleTerm<'static>; 3], Option<&'a SimpleTerm<'static>>), Infallible>>
{
    sq.iter()
        .map(|q| Ok(([&q.0[0], &q.0[1], &q.0[2]], q.1.as_ref())))
}

fn triple_src<'a>(
    sq: &'a [SQuad],
) -> impl Iterator<Item = Result<[&'a SimpleTerm<'static>; 3], Infallible>> {
    sq.iter().map(|q| Ok([&q.0[0], &q.0[1], &q.0[2]]))
}

pub fn collect_quads<S: QuadSource>(s: S) -> Parsed {
    collect_quads_with(s, false)
}

/// `repoll_after_error`: also poll again after the source reported an ERROR. Only asked of
/// sources whose state machine is sophia's own (the JSON-LD source). A Rio-backed source polled
/// after a syntax error resumes the third-party parser's error recovery, which is outside what
/// this check claims (see DESIGN.md §11.9).
pub fn collect_quads_with<S: QuadSource>(mut s: S, repoll_after_error: bool) -> Parsed {
    let mut items = vec![];
    let r = s.try_for_each_quad(|q| -> Result<(), Infallible> {
        items.push(quad_from(q));
        Ok(())
    });
    let mut after_end = vec![];
    for _ in 0..(if r.is_ok() || repoll_after_error { EXTRA_POLLS } else { 0 }) {
        let more = s.try_for_some_quad(|q| -> Result<(), Infallible> {
            if after_end.len() < 64 {
                after_end.push(quad_from(q));
            }
            Ok(())
        });
        if matches!(more, Ok(false)) {
            break;
        }
    }
    Parsed {
        after_end,
        items,
        result: match r {
            Ok(()) => Ok(()),
            Err(StreamError::SourceError(e)) => Err(ParseFail::Source(Box::new(e))),
            Err(StreamError::SinkError(e)) => Err(ParseFail::Sink(Box::new(e))),
        },
    }
}

pub fn collect_triples<S: TripleSource>(mut s: S) -> Parsed {
    let mut items = vec![];
    let r = s.try_for_each_triple(|t| -> Result<(), Infallible> {
        items.push((triple_from(t), None));
        Ok(())
    });
    let mut after_end = vec![];
    for _ in 0..(if r.is_ok() { EXTRA_POLLS } else { 0 }) {
        let more = s.try_for_some_triple(|t| -> Result<(), Infallible> {
            if after_end.len() < 64 {
                after_end.push((triple_from(t), None));
            }
            Ok(())
        });
        if matches!(more, Ok(false)) {
            break;
        }
    }
    Parsed {
        after_end,
        items,
        result: match r {
            Ok(()) => Ok(()),
            Err(StreamError::SourceError(e)) => Err(ParseFail::Source(Box::new(e))),
            Err(StreamError::SinkError(e)) => Err(ParseFail::Sink(Box::new(e))),
        },
    }
}

// ---------------------------------------------------------------------------------------------

#[derive(Clone, Copy, Debug, PartialEq, Eq)]
pub enum NxReader {
    Strict,
    Generalized,
}

/// N-Triples (triples == true) or N-Quads.
pub struct Nx {
    pub triples: bool,
    pub reader: NxReader,
}

impl Format for Nx {
    fn name(&self) -> String {
        format!(
            "{}/{:?}",
            if self.triples { "nt" } else { "nq" },
            self.reader
        )
    }
    fn serialize(&self, quads: &[MQuad], w: SimWriter, src: u8) -> SerResult {
        let sq = squads(quads);
        if self.triples {
            let mut ser = sophia_turtle::serializer::nt::NtSerializer::new(w);
            ser_triples(&mut ser, &sq, src)
        } else {
            let mut ser = sophia_turtle::serializer::nq::NqSerializer::new(w);
            ser_quads(&mut ser, &sq, src)
        }
    }
    fn parse(&self, r: SimReader) -> Parsed {
        match (self.reader, self.triples) {
            (NxReader::Strict, true) => collect_triples(sophia_turtle::parser::nt::parse_bufread(r)),
            (NxReader::Strict, false) => collect_quads(sophia_turtle::parser::nq::parse_bufread(r)),
            (NxReader::Generalized, _) => {
                collect_quads(sophia_turtle::parser::gnq::parse_bufread(r))
            }
        }
    }
}

// ---------------------------------------------------------------------------------------------

pub struct Ttl {
    pub trig: bool,
    pub pretty: bool,
    pub prefixes: Vec<(String, String)>,
    pub indentation: String,
    pub generalized_reader: bool,
}

impl Ttl {
    fn config(&self) -> sophia_turtle::serializer::turtle::TurtleConfig {
        let pm: Vec<PrefixMapPair> = self
            .prefixes
            .iter()
            .map(|(p, ns)| {
                (
                    Prefix::new(p.clone().into_boxed_str()).expect("prefix"),
                    Iri::new(ns.clone().into_boxed_str()).expect("namespace"),
                )
            })
            .collect();
        sophia_turtle::serializer::turtle::TurtleConfig::new()
            .with_pretty(self.pretty)
            .with_own_prefix_map(pm)
            .with_indentation(self.indentation.clone())
    }
}

impl Format for Ttl {
    fn name(&self) -> String {
        format!(
            "{}/pretty={}/prefixes={}/indent={:?}",
            if self.trig { "trig" } else { "ttl" },
            self.pretty,
            self.prefixes.len(),
            self.indentation
        )
    }
    fn serialize(&self, quads: &[MQuad], w: SimWriter, src: u8) -> SerResult {
        let sq = squads(quads);
        if self.trig {
            let mut ser =
                sophia_turtle::serializer::trig::TrigSerializer::new_with_config(w, self.config());
            ser_quads(&mut ser, &sq, src)
        } else {
            let mut ser = sophia_turtle::serializer::turtle::TurtleSerializer::new_with_config(
                w,
                self.config(),
            );
            ser_triples(&mut ser, &sq, src)
        }
    }
    fn parse(&self, r: SimReader) -> Parsed {
        if self.generalized_reader {
            collect_quads(sophia_turtle::parser::gtrig::parse_bufread(r))
        } else if self.trig {
            collect_quads(sophia_turtle::parser::trig::parse_bufread(r))
        } else {
            collect_triples(sophia_turtle::parser::turtle::parse_bufread(r))
        }
    }
}

// ---------------------------------------------------------------------------------------------

pub struct Xml {
    pub indentation: usize,
}

impl Format for Xml {
    fn name(&self) -> String {
        format!("rdfxml/indent={}", self.indentation)
    }
    fn serialize(&self, quads: &[MQuad], w: SimWriter, src: u8) -> SerResult {
        let sq = squads(quads);
        let cfg = sophia_xml::serializer::RdfXmlConfig::new().with_indentation(self.indentation);
        let mut ser = sophia_xml::serializer::RdfXmlSerializer::new_with_config(w, cfg);
        ser_triples(&mut ser, &sq, src)
    }
    fn parse(&self, r: SimReader) -> Parsed {
        collect_triples(sophia_xml::parser::parse_bufread(r))
    }
}

// ---------------------------------------------------------------------------------------------

#[derive(Clone, Copy, Debug, PartialEq, Eq)]
pub enum Dir {
    None,
    I18n,
    Compound,
}

pub struct JsonLd {
    pub spaces: u16,
    pub mode_1_0: bool,
    pub use_rdf_type: bool,
    pub dir: Dir,
}

impl JsonLd {
    fn options(&self) -> sophia_jsonld::JsonLdOptions<sophia_jsonld::loader_factory::DefaultLoaderFactory<sophia_jsonld::loader::NoLoader>>
    {
        let mut o = sophia_jsonld::JsonLdOptions::new()
            .with_spaces(self.spaces)
            .with_use_rdf_type(self.use_rdf_type)
            .with_processing_mode(if self.mode_1_0 {
                sophia_jsonld::ProcessingMode::JsonLd1_0
            } else {
                sophia_jsonld::ProcessingMode::JsonLd1_1
            });
        o = match self.dir {
            Dir::None => o.with_no_rdf_direction(),
            Dir::I18n => o.with_rdf_direction(sophia_jsonld::RdfDirection::I18nDatatype),
            Dir::Compound => o.with_rdf_direction(sophia_jsonld::RdfDirection::CompoundLiteral),
        };
        o
    }
}

impl Format for JsonLd {
    fn name(&self) -> String {
        format!(
            "jsonld/spaces={}/mode={}/use_rdf_type={}/dir={:?}",
            self.spaces,
            if self.mode_1_0 { "1.0" } else { "1.1" },
            self.use_rdf_type,
            self.dir
        )
    }
    fn hash_sensitive(&self) -> bool {
        true
    }
    fn serialize(&self, quads: &[MQuad], w: SimWriter, src: u8) -> SerResult {
        let sq = squads(quads);
        let mut ser = sophia_jsonld::JsonLdSerializer::new_with_options(w, self.options());
        ser_quads(&mut ser, &sq, src)
    }
    fn parse(&self, r: SimReader) -> Parsed {
        let p = sophia_jsonld::JsonLdParser::new_with_options(self.options());
        collect_quads(QuadParser::parse(&p, r))
    }
}

// keep the trait imports used
#[allow(dead_code)]
fn _uses<B: std::io::BufRead>(b: B) {
    let _ = TripleParser::parse(&sophia_turtle::parser::nt::NTriplesParser {}, b);
}
