//! C08 — parsers are total. The simulated component is the storage/network the document comes
//! from: truncation at an arbitrary instant, flipped/replaced/inserted/deleted bytes,
//! duplicated or swapped chunks, hard read errors, EINTR, arbitrary chunking.

use crate::formats::*;
use crate::rt::{draw_rplan, excerpt};
use simcore::ctx::{Ctx, Verdict, Violation};
use simcore::driver::on_fresh_thread;
use simcore::r#gen::*;
use simcore::model::*;
use simcore::seams::*;
use simcore::{ensure, ev};
use sophia_api::parser::{QuadParser, TripleParser};
use sophia_api::term::{BnodeId, IriRef, LanguageTag, VarName};
use sophia_iri::Iri;

#[derive(Clone, Copy, Debug, PartialEq, Eq)]
pub enum Flavour {
    Nt,
    Nq,
    Gnq,
    Turtle,
    Trig,
    Gtrig,
    Xml,
    JsonLd,
}

pub const FLAVOURS: [Flavour; 8] = [
    Flavour::Nt,
    Flavour::Nq,
    Flavour::Gnq,
    Flavour::Turtle,
    Flavour::Trig,
    Flavour::Gtrig,
    Flavour::Xml,
    Flavour::JsonLd,
];

impl Flavour {
    fn strict(self) -> bool {
        matches!(
            self,
            Flavour::Nt | Flavour::Nq | Flavour::Turtle | Flavour::Trig | Flavour::Xml
        )
    }
    fn hash_sensitive(self) -> bool {
        self == Flavour::JsonLd
    }
    fn name(self) -> &'static str {
        match self {
            Flavour::Nt => "nt",
            Flavour::Nq => "nq",
            Flavour::Gnq => "gnq",
            Flavour::Turtle => "turtle",
            Flavour::Trig => "trig",
            Flavour::Gtrig => "gtrig",
            Flavour::Xml => "rdfxml",
            Flavour::JsonLd => "jsonld",
        }
    }
}

/// Options of the JSON-LD parser for the current run (bit 0: ordered, bit 1: generalized RDF,
/// bit 2: processing mode 1.0, bit 3: a base IRI). One run at a time per worker process.
static JSONLD_OPTS: std::sync::atomic::AtomicU8 = std::sync::atomic::AtomicU8::new(0);

fn jsonld_parser() -> sophia_jsonld::JsonLdParser<sophia_jsonld::loader_factory::DefaultLoaderFactory<sophia_jsonld::loader::NoLoader>> {
    let bits = JSONLD_OPTS.load(std::sync::atomic::Ordering::Relaxed);
    // (each option set once, in an order that varies with the bits: a builder method that
    // touches another option's field must not be hidden by the call that follows it)
    let mut o = sophia_jsonld::JsonLdOptions::new();
    let mode = if bits & 4 != 0 { sophia_jsonld::ProcessingMode::JsonLd1_0 } else { sophia_jsonld::ProcessingMode::JsonLd1_1 };
    o = match bits % 3 {
        0 => o.with_ordered(bits & 1 != 0).with_produce_generalized_rdf(bits & 2 != 0).with_processing_mode(mode),
        1 => o.with_processing_mode(mode).with_produce_generalized_rdf(bits & 2 != 0).with_ordered(bits & 1 != 0),
        _ => o.with_produce_generalized_rdf(bits & 2 != 0).with_ordered(bits & 1 != 0).with_processing_mode(mode),
    };
    if bits & 8 != 0 {
        o = o.with_base(Iri::new_unchecked("http://example.org/base/doc".into()));
    }
    sophia_jsonld::JsonLdParser::new_with_options(o)
}

fn parse_with(fl: Flavour, base: Option<&str>, r: SimReader) -> Parsed {
    let b = base.map(|b| Iri::new(b.to_string()).expect("base"));
    match fl {
        Flavour::Nt => collect_triples(sophia_turtle::parser::nt::parse_bufread(r)),
        Flavour::Nq => collect_quads(sophia_turtle::parser::nq::parse_bufread(r)),
        Flavour::Gnq => collect_quads(sophia_turtle::parser::gnq::parse_bufread(r)),
        Flavour::Turtle => collect_triples(TripleParser::parse(
            &sophia_turtle::parser::turtle::TurtleParser { base: b },
            r,
        )),
        Flavour::Trig => collect_quads(QuadParser::parse(
            &sophia_turtle::parser::trig::TriGParser { base: b },
            r,
        )),
        Flavour::Gtrig => collect_quads(QuadParser::parse(
            &sophia_turtle::parser::gtrig::GTriGParser { base: b },
            r,
        )),
        Flavour::Xml => collect_triples(TripleParser::parse(
            &sophia_xml::parser::RdfXmlParser { base: b },
            r,
        )),
        Flavour::JsonLd => {
            let p = jsonld_parser();
            collect_quads_with(QuadParser::parse(&p, r), true)
        }
    }
}

fn do_parse(fl: Flavour, hs: u64, base: Option<&str>, r: SimReader) -> Parsed {
    if fl.hash_sensitive() {
        on_fresh_thread(hs, || parse_with(fl, base, r))
    } else {
        parse_with(fl, base, r)
    }
}

// ---------------------------------------------------------------------------------------------
// corpus (valid documents exercising the constructs the generator's serializers never emit)

const TURTLE_CORPUS: &[&str] = &[
    "@prefix : <http://example.org/ns/> .\n@base <http://example.org/base/> .\nPREFIX rdf: <http://www.w3.org/1999/02/22-rdf-syntax-ns#>\nBASE <http://example.org/b2/>\n<#me> :knows [ a :Person ; :name \"Alice\" ] {| :since 2002 ; :src <rel> |} , ( 1 2.5 3e0 ( :x ) [] ) ;\n  :p \"\"\"long \"\"quoted\"\" \n text\"\"\"@en-GB , 'single' , '''tri\n''' , true , -4 , +.5 .\n<< :a :b << :c :d \"e\" >> >> :q _:b1 .\n_:b1 :r <http://[::1]:80/p?q#f> , <urn:x:y> , <../up/./x> .\n:a\\~b :p\\.q :o%41 .\n",
    "@prefix ex: <http://example.org/> .\nex:s ex:p ex:o .\nex:s ex:p \"\\u00e9\\U0001F600\\t\\n\\\\\" .\nex:s ex:p <http://example.org/\\u00e9> .\n[] ex:p [ ex:q [ ex:r [ ex:s () ] ] ] .\n( ( ( ) ) ) ex:p ex:o .\n",
    "# only a comment\n",
    "",
    "<http://a/s> <http://a/p> \"x\"^^<http://www.w3.org/2001/XMLSchema#string> ; <http://a/p2> 1 , 2 ; .\n",
];

const TRIG_CORPUS: &[&str] = &[
    "@prefix : <http://example.org/ns/> .\n{ :s :p :o }\n:g1 { :s :p :o , [ :q 1 ] . }\nGRAPH :g2 { :s :p ( 1 2 ) }\nGRAPH _:g3 { _:g3 :p << :a :b :c >> }\n[] { :x :y :z }\n:s :p :o .\n",
    "<http://a/g> { <http://a/s> <http://a/p> \"v\"@en . }\n",
];

const GTRIG_CORPUS: &[&str] = &[
    "@prefix : <http://example.org/ns/> .\n\"lit\" :p ?var .\n?s ?p ?o .\n:s _:bp :o .\n:s \"lp\" :o .\nGRAPH \"lg\" { :s :p :o }\nGRAPH ?g { << ?a \"b\" _:c >> :p << :x :y :z >> }\n<rel> <#f> <?q> .\n",
];

const NT_CORPUS: &[&str] = &[
    "<http://a/s> <http://a/p> <http://a/o> .\n_:b1 <http://a/p> \"l\"@en-US .\n<< <http://a/s> <http://a/p> _:b1 >> <http://a/q> \"1\"^^<http://www.w3.org/2001/XMLSchema#integer> .\n# c\n\n<http://a/s> <http://a/p> \"\\u00e9\\U0001F600\\t\\b\\n\\r\\f\\\"\\'\\\\\" .\n",
];

const NQ_CORPUS: &[&str] = &[
    "<http://a/s> <http://a/p> <http://a/o> <http://a/g> .\n_:b1 <http://a/p> \"l\"@en-US _:g .\n<http://a/s> <http://a/p> \"x\" .\n",
];

const GNQ_CORPUS: &[&str] = &[
    "\"s\" ?p _:o \"g\" .\n<rel> <#f> <?q> <//h/p> .\n?s ?p ?o ?g .\n<< \"a\" ?b _:c >> <p> << <x> <y> <z> >> .\n_:b \"p\"@en \"o\"^^<dt> .\n",
];

const XML_CORPUS: &[&str] = &[
    "<?xml version=\"1.0\" encoding=\"utf-8\"?>\n<rdf:RDF xmlns:rdf=\"http://www.w3.org/1999/02/22-rdf-syntax-ns#\" xmlns=\"http://example.org/ns/\" xmlns:ex=\"http://example.org/x#\" xml:base=\"http://example.org/base/\" xml:lang=\"en\">\n  <rdf:Description rdf:about=\"#me\" ex:attr=\"v\">\n    <knows><Person rdf:nodeID=\"b1\"><name xml:lang=\"fr-BE\">Alice</name><age rdf:datatype=\"http://www.w3.org/2001/XMLSchema#integer\">42</age></Person></knows>\n    <ex:lit rdf:parseType=\"Literal\"><b xmlns=\"http://www.w3.org/1999/xhtml\">bold &amp; <i>it</i></b></ex:lit>\n    <ex:res rdf:parseType=\"Resource\"><ex:p rdf:resource=\"rel\"/></ex:res>\n    <ex:coll rdf:parseType=\"Collection\"><rdf:Description rdf:about=\"a\"/><rdf:Description rdf:about=\"b\"/></ex:coll>\n    <ex:reified rdf:ID=\"st1\">x</ex:reified>\n    <rdf:li>one</rdf:li><rdf:li rdf:resource=\"two\"/><rdf:_7>seven</rdf:_7>\n    <ex:empty/>\n    <ex:cdata><![CDATA[<raw> & ]]></ex:cdata>\n    <ex:ent>&#x41;&#66;&lt;&gt;&quot;&apos;</ex:ent>\n  </rdf:Description>\n  <rdf:Bag rdf:ID=\"bag\"><rdf:li rdf:parseType=\"Resource\"/></rdf:Bag>\n  <!-- comment -->\n</rdf:RDF>\n",
    "<rdf:RDF xmlns:rdf=\"http://www.w3.org/1999/02/22-rdf-syntax-ns#\"/>",
    "<?xml version=\"1.0\"?><!DOCTYPE rdf:RDF [<!ENTITY ex \"http://example.org/\">]><rdf:RDF xmlns:rdf=\"http://www.w3.org/1999/02/22-rdf-syntax-ns#\" xmlns:e=\"&ex;\"><rdf:Description rdf:about=\"&ex;s\"><e:p rdf:resource=\"&ex;o\"/></rdf:Description></rdf:RDF>",
];

const JSONLD_CORPUS: &[&str] = &[
    // blank nodes as properties (only kept when generalized RDF is asked for) and as @vocab
    "{\"@id\":\"tag:s\",\"_:p\":\"v\",\"_:a:b\":{\"@id\":\"_:o.x\"},\"_:1\":[1,true],\"http://a/p\":{\"@id\":\"_:a:b\"}}",
    "{\"@context\":{\"@vocab\":\"_:v\"},\"@id\":\"tag:s\",\"term\":\"v\",\"@type\":\"T\"}",
    "{\"@context\":{\"@vocab\":\"http://example.org/ns/\",\"@base\":\"http://example.org/base/\",\"ex\":\"http://example.org/x#\",\"knows\":{\"@type\":\"@id\"},\"l\":{\"@container\":\"@list\"},\"lang\":{\"@container\":\"@language\"},\"idx\":{\"@container\":\"@index\"},\"rev\":{\"@reverse\":\"ex:rev\"},\"j\":{\"@type\":\"@json\"},\"@language\":\"en\",\"@direction\":\"ltr\"},\"@id\":\"#me\",\"@type\":[\"Person\",\"ex:T\"],\"name\":\"Alice\",\"knows\":[\"bob\",{\"@id\":\"_:b1\",\"name\":{\"@value\":\"B\",\"@language\":\"fr\",\"@direction\":\"rtl\"}}],\"l\":[1,2.5,true,null,[\"nested\"]],\"lang\":{\"en\":\"x\",\"de\":[\"y\",\"z\"]},\"idx\":{\"a\":\"b\"},\"rev\":{\"@id\":\"r\"},\"j\":{\"k\":[1,{\"z\":null}]},\"ex:typed\":{\"@value\":\"1\",\"@type\":\"http://www.w3.org/2001/XMLSchema#integer\"},\"@graph\":[{\"@id\":\"g1\",\"ex:p\":{\"@set\":[1,2]}}],\"@included\":[{\"@id\":\"inc\",\"ex:q\":\"v\"}],\"@reverse\":{\"ex:r\":{\"@id\":\"x\"}},\"@nest\":{\"name\":\"N\"}}",
    "[{\"@id\":\"http://a/s\",\"http://a/p\":[{\"@id\":\"http://a/o\"},{\"@value\":\"v\",\"@language\":\"en\"},{\"@list\":[{\"@value\":1},{\"@list\":[]}]}],\"@graph\":[{\"@id\":\"_:b\",\"http://a/q\":[{\"@value\":true}]}]}]",
    "{\"@context\":\"http://example.org/remote-context.jsonld\",\"@id\":\"http://a/s\",\"p\":\"v\"}",
    "{\"@context\":[{\"@version\":1.1,\"p\":{\"@id\":\"http://a/p\",\"@context\":{\"q\":\"http://a/q\"}}},null,{\"@protected\":true,\"r\":\"http://a/r\"}],\"@id\":\"http://a/s\",\"r\":{\"r\":1.5e300},\"http://a/big\":123456789012345678901234567890,\"http://a/f\":-0.0}",
    "{}",
    "[]",
    "\"just a string\"",
];

fn corpus_for(fl: Flavour) -> &'static [&'static str] {
    match fl {
        Flavour::Nt => NT_CORPUS,
        Flavour::Nq => NQ_CORPUS,
        Flavour::Gnq => GNQ_CORPUS,
        Flavour::Turtle => TURTLE_CORPUS,
        Flavour::Trig => TRIG_CORPUS,
        Flavour::Gtrig => GTRIG_CORPUS,
        Flavour::Xml => XML_CORPUS,
        Flavour::JsonLd => JSONLD_CORPUS,
    }
}

/// Tokens worth splicing into documents.
const DICT: &[&str] = &[
    "<<", ">>", "{|", "|}", "@prefix", "@base", "PREFIX", "BASE", "GRAPH", "\\u", "\\U0010FFFF",
    "\\uD800", "%", "%4", "\"\"\"", "'''", "^^", "_:", "[", "]", "(", ")", "{", "}", "@", "@en-",
    "<", ">", ".", ";", ",", "a", "true", "1e", "+", "-.", "?", "?x", "#", "\n", "\r\n", "\t",
    "\\", "\"", "'", ":", "::", "<http://[::1]/>", "<http://a/ b>", "<a:b>", "<//>", "<#>", "<>",
    "&", "&amp;", "&#x0;", "&#xD800;", "<!--", "-->", "<![CDATA[", "]]>", "<?", "?>", "<!DOCTYPE",
    "rdf:about=\"", "rdf:nodeID=\"1\"", "rdf:ID=\"1\"", "rdf:parseType=\"Literal\"",
    "rdf:parseType=\"Collection\"", "xml:lang=\"\"", "xml:base=\"\"", "xmlns:rdf=\"x\"", "</rdf:RDF>",
    "\"@id\"", "\"@context\"", "\"@list\"", "\"@graph\"", "\"@value\"", "\"@type\"", "\"@language\"",
    "\"@reverse\"", "\"@json\"", "null", "1e999", "\\ud800", "\\u0000", "\"_:\"", "\"_:a b\"",
    "\"@vocab\":\"\"", "\"@base\":null", "\"@id\":\"\"", "\"@type\":\"@id\"", "\"@index\"",
    "\u{feff}", "\u{0}", "\u{80}", "\u{fffe}", "\u{1F600}", "\u{300}", "\u{b7}",
];

const STRUCTURAL: &[u8] = b"<>\"'\\.;,[](){}@^_:#%&?=/ \n\t-+eEuU0123456789|";

fn nest_doc(t: &mut simcore::Tape, fl: Flavour) -> (Vec<u8>, usize) {
    let depth = [8usize, 30, 100, 1000, 10_000][t.below(5)];
    let kind = t.below(4);
    let mut s = String::new();
    match fl {
        Flavour::Xml => {
            s.push_str("<rdf:RDF xmlns:rdf=\"http://www.w3.org/1999/02/22-rdf-syntax-ns#\" xmlns:e=\"http://e/\">");
            for i in 0..depth {
                if i % 2 == 0 {
                    s.push_str("<rdf:Description>");
                } else {
                    s.push_str("<e:p>");
                }
            }
            if kind != 0 {
                for i in (0..depth).rev() {
                    if i % 2 == 0 {
                        s.push_str("</rdf:Description>");
                    } else {
                        s.push_str("</e:p>");
                    }
                }
                s.push_str("</rdf:RDF>");
            }
        }
        Flavour::JsonLd => {
            let (open, close) = match kind {
                0 => ("[", "]"),
                1 => ("{\"http://a/p\":", "}"),
                2 => ("{\"@list\":[", "]}"),
                _ => ("{\"@graph\":[", "]}"),
            };
            for _ in 0..depth {
                s.push_str(open);
            }
            s.push_str("1");
            if t.flag() {
                for _ in 0..depth {
                    s.push_str(close);
                }
            }
        }
        Flavour::Nt | Flavour::Nq | Flavour::Gnq => {
            for _ in 0..depth {
                s.push_str("<< ");
            }
            s.push_str("<http://a/s> <http://a/p> <http://a/o>");
            if t.flag() {
                for _ in 0..depth {
                    s.push_str(" >> <http://a/p> <http://a/o>");
                }
            }
            s.push_str(" .\n");
        }
        _ => {
            let (open, close) = match kind {
                0 => ("( ", " )"),
                1 => ("[ <http://a/p> ", " ]"),
                2 => ("<< ", " <http://a/p> <http://a/o> >>"),
                _ => ("[ <http://a/p> ( ", " ) ]"),
            };
            s.push_str("<http://a/s> <http://a/p> ");
            for _ in 0..depth {
                s.push_str(open);
            }
            s.push_str("<http://a/o>");
            if t.flag() {
                for _ in 0..depth {
                    s.push_str(close);
                }
            }
            s.push_str(" .\n");
        }
    }
    (s.into_bytes(), depth)
}

/// A syntactically valid document written as raw text around structured random IRIs: these
/// never went through the toolkit's own validator, so a disagreement between it and the parser
/// (the parser accepts, the validator rejects) shows up on a *valid* document.
/// A relative IRI reference (RFC 3987 irelative-ref): network-path, absolute-path, no-scheme
/// path, empty, with colons allowed wherever the grammar allows them (query, fragment, later
/// segments) — only the generalized parsers, and the others with a base IRI, accept them.
/// A blank node label that never went through the toolkit's validator: from the pool, or drawn
/// by character class from the grammar.
fn raw_label(t: &mut simcore::Tape) -> String {
    if t.flag() {
        BNODE_POOL[t.below(BNODE_POOL.len())].to_string()
    } else {
        draw_bnode_label(t)
    }
}

fn draw_rel_ref(t: &mut simcore::Tape) -> String {
    const SEG: &[&str] = &["a", "b.c", "..", ".", "", "x:y", "%c3%a9", "\u{e9}", "~", "a;b=c", "@"];
    let mut s = String::new();
    const SEG_NZ: &[&str] = &["a", "b.c", "..", ".", "x:y", "%c3%a9", "\u{e9}", "~", "a;b=c", "@"];
    let more = |t: &mut simcore::Tape, s: &mut String| {
        for _ in 0..t.below(3) {
            s.push('/');
            s.push_str(SEG[t.below(SEG.len())]);
        }
    };
    match t.draw(5) {
        0 => {
            // network-path reference: authority, then path-abempty
            s.push_str("//example.org");
            more(t, &mut s);
        }
        1 => {
            // path-absolute: "/" [ segment-nz *( "/" segment ) ] (a second '/' right away
            // would start an authority)
            s.push('/');
            if t.flag() {
                s.push_str(SEG_NZ[t.below(SEG_NZ.len())]);
                more(t, &mut s);
            }
        }
        2 => {}
        _ => {
            // path-noscheme: the first segment must be non-empty and must not contain ':'
            s.push_str(["a", "b.c", "..", ".", "%41", "\u{e9}"][t.below(6)]);
            more(t, &mut s);
        }
    }
    if t.chance(1, 2) {
        s.push('?');
        s.push_str(["", "q=1", "id=urn:x:y", "a:b", "t=00:10", "/?"][t.below(6)]);
    }
    if t.chance(1, 2) {
        s.push('#');
        s.push_str(["", "f", "s:1", "t=00:10", "a:", ":", "x/y?z"][t.below(7)]);
    }
    s
}

fn iri_stress_doc(t: &mut simcore::Tape, fl: Flavour) -> Vec<u8> {
    let n = t.range(1, 3);
    let mut s = String::new();
    let xml_esc = |i: &str| i.replace('&', "&amp;").replace('\'', "&apos;").replace('<', "&lt;");
    match fl {
        Flavour::Xml => {
            s.push_str("<rdf:RDF xmlns:rdf=\"http://www.w3.org/1999/02/22-rdf-syntax-ns#\">");
            for _ in 0..n {
                // the namespace ends with '/' so that namespace + local name is a valid IRI too
                let (sub, ns, obj) = (draw_iri(t), format!("{}/", draw_iri(t)), draw_iri(t));
                s.push_str(&format!(
                    "<rdf:Description rdf:about=\"{}\"><n:p xmlns:n=\"{}\" rdf:resource=\"{}\"/><n:q xmlns:n=\"{}\" rdf:datatype=\"{}\">v</n:q><n:r xmlns:n=\"{}\" xml:lang=\"{}\">v</n:r></rdf:Description>",
                    xml_esc(&sub), xml_esc(&ns), xml_esc(&obj), xml_esc(&ns), xml_esc(&draw_iri(t)), xml_esc(&ns), TAG_POOL[t.below(TAG_POOL.len())]
                ));
            }
            s.push_str("</rdf:RDF>");
        }
        Flavour::JsonLd => {
            s.push('[');
            for k in 0..n {
                if k > 0 {
                    s.push(',');
                }
                s.push_str(&format!(
                    "{{\"@id\":\"{}\",\"{}\":[{{\"@id\":\"{}\"}},{{\"@value\":\"v\",\"@type\":\"{}\"}},{{\"@value\":\"v\",\"@language\":\"{}\"}}]}}",
                    draw_iri(t), draw_iri(t), draw_iri(t), draw_iri(t), TAG_POOL[t.below(TAG_POOL.len())]
                ));
            }
            s.push(']');
        }
        Flavour::Nq | Flavour::Gnq => {
            if fl == Flavour::Gnq {
                // generalized N-Quads accepts relative references as they are
                for _ in 0..n {
                    s.push_str(&format!("<{}> <{}> <{}> <{}> .\n", draw_rel_ref(t), draw_rel_ref(t), draw_rel_ref(t), draw_rel_ref(t)));
                }
            }
            for _ in 0..n {
                s.push_str(&format!("<{}> <{}> <{}> <{}> .\n", draw_iri(t), draw_iri(t), draw_iri(t), draw_iri(t)));
                s.push_str(&format!("<{}> <{}> \"v\"^^<{}> .\n", draw_iri(t), draw_iri(t), draw_iri(t)));
                s.push_str(&format!("_:{} <{}> \"v\"@{} _:{} .\n", raw_label(t), draw_iri(t), TAG_POOL[t.below(TAG_POOL.len())], raw_label(t)));
            }
        }
        Flavour::Nt => {
            for _ in 0..n {
                s.push_str(&format!("<{}> <{}> <{}> .\n", draw_iri(t), draw_iri(t), draw_iri(t)));
                s.push_str(&format!("<{}> <{}> \"v\"^^<{}> .\n", draw_iri(t), draw_iri(t), draw_iri(t)));
                s.push_str(&format!("_:{} <{}> \"v\"@{} .\n", raw_label(t), draw_iri(t), TAG_POOL[t.below(TAG_POOL.len())]));
            }
        }
        _ => {
            // the namespace ends with '/' so that p:x expands to a valid IRI too
            s.push_str(&format!("@prefix p: <{}/> .\n", draw_iri(t)));
            for _ in 0..n {
                s.push_str(&format!("<{}> <{}> <{}> , \"v\"^^<{}> ; p: p:x , \"v\"@{} , _:{} .\n", draw_iri(t), draw_iri(t), draw_iri(t), draw_iri(t), TAG_POOL[t.below(TAG_POOL.len())], raw_label(t)));
            }
            if fl != Flavour::Turtle {
                s.push_str(&format!("GRAPH <{}> {{ <{}> <{}> <{}> }}\n", draw_iri(t), draw_iri(t), draw_iri(t), draw_iri(t)));
            }
            // relative references: resolved against the base by the strict parsers (when there is
            // one), kept as they are by the generalized one
            for _ in 0..n {
                s.push_str(&format!("<{}> <{}> <{}> .\n", draw_rel_ref(t), draw_rel_ref(t), draw_rel_ref(t)));
            }
        }
    }
    s.into_bytes()
}

fn long_token_doc(t: &mut simcore::Tape, fl: Flavour) -> Vec<u8> {
    let n = [1000usize, 9000, 70_000][t.below(3)];
    let run: String = match t.below(4) {
        0 => "a".repeat(n),
        1 => "\u{e9}".repeat(n / 2),
        2 => "%41".repeat(n / 3),
        _ => "\\u0041".repeat(n / 6),
    };
    let s = match fl {
        Flavour::Xml => format!("<rdf:RDF xmlns:rdf=\"http://www.w3.org/1999/02/22-rdf-syntax-ns#\" xmlns:e=\"http://e/\"><rdf:Description rdf:about=\"http://a/{run}\"><e:{0}>{run}</e:{0}></rdf:Description></rdf:RDF>", &run[..run.len().min(300)].replace(['%', '\\'], "x")),
        Flavour::JsonLd => format!("{{\"@id\":\"http://a/{run}\",\"http://a/{run}\":\"{run}\"}}"),
        _ => format!("<http://a/{run}> <http://a/p{run}> \"{run}\"@en-{} .\n_:{} <http://a/p> \"x\" .\n", &run[..run.len().min(8)].replace(['%', '\\', '\u{e9}'], "x"), run.replace(['%', '\\'], "x")),
    };
    s.into_bytes()
}

/// Produce the document that "storage" holds before corruption.
fn base_document2(ctx: &mut Ctx, fl: Flavour, hs: u64) -> (Vec<u8>, &'static str, usize) {
    match ctx.tape.draw(8) {
        0..=3 => {
            // a valid document produced by the real serializer from a generated dataset
            let (profile, fmt): (Profile, Box<dyn Format>) = match fl {
                Flavour::Nt => (
                    Profile::star(),
                    Box::new(Nx {
                        triples: true,
                        reader: NxReader::Strict,
                    }),
                ),
                Flavour::Nq => (
                    Profile::star(),
                    Box::new(Nx {
                        triples: false,
                        reader: NxReader::Strict,
                    }),
                ),
                Flavour::Gnq => (
                    Profile::generalized(),
                    Box::new(Nx {
                        triples: false,
                        reader: NxReader::Generalized,
                    }),
                ),
                Flavour::Turtle | Flavour::Trig | Flavour::Gtrig => (
                    Profile::star(),
                    Box::new(Ttl {
                        trig: fl != Flavour::Turtle,
                        pretty: ctx.tape.flag(),
                        prefixes: vec![
                            ("".into(), "http://example.org/".into()),
                            ("ns".into(), "http://example.org/ns/".into()),
                            ("rdf".into(), RDF.into()),
                            ("xsd".into(), XSD.into()),
                        ],
                        indentation: " ".into(),
                        generalized_reader: false,
                    }),
                ),
                Flavour::Xml => {
                    let mut p = Profile::strict();
                    p.graphs = false;
                    p.xml_chars = true;
                    (
                        p,
                        Box::new(Xml {
                            indentation: ctx.tape.below(3),
                        }),
                    )
                }
                Flavour::JsonLd => (
                    Profile::strict(),
                    Box::new(JsonLd {
                        spaces: ctx.tape.below(3) as u16,
                        mode_1_0: false,
                        use_rdf_type: ctx.tape.flag(),
                        dir: Dir::None,
                    }),
                ),
            };
            let (_a, input, _s) = gen_dataset(&mut ctx.tape, &profile);
            let w = SimWriter::perfect();
            let res = if fmt.hash_sensitive() {
                on_fresh_thread(hs, || fmt.serialize(&input, w.handle(), 0))
            } else {
                fmt.serialize(&input, w.handle(), 0)
            };
            match res {
                SerResult::Ok => (w.accepted(), "serialized", 0),
                _ => {
                    let c = corpus_for(fl);
                    (c[0].as_bytes().to_vec(), "corpus", 0)
                }
            }
        }
        4 | 5 => {
            let c = corpus_for(fl);
            (c[ctx.tape.below(c.len())].as_bytes().to_vec(), "corpus", 0)
        }
        6 => {
            // a document of another syntax (near-miss by construction)
            let other = FLAVOURS[ctx.tape.below(FLAVOURS.len())];
            let c = corpus_for(other);
            (c[ctx.tape.below(c.len())].as_bytes().to_vec(), "foreign_corpus", 0)
        }
        _ => {
            // rarer: these documents are big, and some kill the process (known findings)
            match ctx.tape.draw(8) {
                1 => {
                    let (d, depth) = nest_doc(&mut ctx.tape, fl);
                    (d, "deep_nesting", depth)
                }
                2 | 3 => (long_token_doc(&mut ctx.tape, fl), "long_token", 0),
                4..=6 => (iri_stress_doc(&mut ctx.tape, fl), "iri_stress", 0),
                7 => {
                    // a tiny document: 0-3 bytes from the alphabet of byte-order marks, UTF-8
                    // lead/continuation bytes and the first characters of every syntax
                    const BYTES: &[u8] = &[
                        0xEF, 0xBB, 0xBF, 0xFF, 0xFE, 0x00, 0x80, 0xC3, 0xE2, 0xF0, b'{', b'[', b'"', b'<',
                        b'@', b'#', b'_', b'(', b'\\', b'&', b' ', b'\n', b'a', b'1',
                    ];
                    let n = ctx.tape.below(4);
                    let d: Vec<u8> = (0..n).map(|_| BYTES[ctx.tape.below(BYTES.len())]).collect();
                    (d, "tiny", 0)
                }
                _ => {
                    let c = corpus_for(fl);
                    (c[ctx.tape.below(c.len())].as_bytes().to_vec(), "corpus", 0)
                }
            }
        }
    }
}

fn corrupt(ctx: &mut Ctx, doc: &mut Vec<u8>) {
    if ctx.tape.chance(1, 12) {
        // a byte-order mark in front of the document (common in files written on Windows);
        // later edits - a truncation in particular - may cut inside it
        let bom: &[u8] = [&[0xEF, 0xBB, 0xBF][..], &[0xFF, 0xFE][..], &[0xFE, 0xFF][..]][ctx.tape.below(3)];
        let mut d = bom.to_vec();
        d.extend_from_slice(doc);
        *doc = d;
        ctx.fault("doc_bom_prepended");
        ev!(ctx, "prepend BOM {bom:?}");
    }
    let n_edits = ctx.tape.below(4);
    for _ in 0..n_edits {
        if doc.is_empty() && ctx.tape.flag() {
            break;
        }
        let len = doc.len();
        // bias the position toward structural bytes
        let mut pos = ctx.tape.below(len + 1);
        if ctx.tape.flag() && len > 0 {
            for k in 0..32 {
                let p = (pos + k) % len;
                if STRUCTURAL.contains(&doc[p]) {
                    pos = p;
                    break;
                }
            }
        }
        match ctx.tape.draw(9) {
            0 => {}
            1 => {
                let pos = if ctx.tape.chance(1, 6) { ctx.tape.below(4).min(pos) } else { pos };
                doc.truncate(pos);
                ctx.fault("doc_truncated");
                ev!(ctx, "truncate at {pos}");
            }
            2 if pos < len => {
                let bit = ctx.tape.below(8);
                doc[pos] ^= 1 << bit;
                ctx.fault("doc_bit_flip");
                ev!(ctx, "flip bit {bit} at {pos}");
            }
            3 if pos < len => {
                let b = if ctx.tape.flag() {
                    STRUCTURAL[ctx.tape.below(STRUCTURAL.len())]
                } else {
                    ctx.tape.below(256) as u8
                };
                doc[pos] = b;
                ctx.fault("doc_byte_replaced");
                ev!(ctx, "replace at {pos} by {b}");
            }
            4 if pos < len => {
                let n = 1 + ctx.tape.below(4).min(len - pos - 1);
                doc.drain(pos..pos + n);
                ctx.fault("doc_bytes_deleted");
                ev!(ctx, "delete {n} at {pos}");
            }
            5 => {
                let tok = DICT[ctx.tape.below(DICT.len())];
                let tail = doc.split_off(pos);
                doc.extend_from_slice(tok.as_bytes());
                doc.extend_from_slice(&tail);
                ctx.fault("doc_token_inserted");
                ev!(ctx, "insert {tok:?} at {pos}");
            }
            6 if len > 1 => {
                // duplicate a chunk (a retransmitted block)
                let a = pos.min(len - 1);
                let n = 1 + ctx.tape.below((len - a).min(64));
                let chunk = doc[a..a + n].to_vec();
                let tail = doc.split_off(a + n);
                doc.extend_from_slice(&chunk);
                doc.extend_from_slice(&tail);
                ctx.fault("doc_chunk_duplicated");
                ev!(ctx, "duplicate {n} at {a}");
            }
            7 if len > 3 => {
                // swap two adjacent chunks (reordered blocks)
                let a = pos.min(len - 2);
                let n = 1 + ctx.tape.below(((len - a) / 2).clamp(1, 32));
                if a + 2 * n <= len {
                    let (x, y) = doc[a..a + 2 * n].split_at_mut(n);
                    x.swap_with_slice(y);
                    ctx.fault("doc_chunks_swapped");
                    ev!(ctx, "swap {n}+{n} at {a}");
                }
            }
            _ => {
                let b = ctx.tape.below(256) as u8;
                let tail = doc.split_off(pos);
                doc.push(b);
                doc.extend_from_slice(&tail);
                ctx.fault("doc_byte_inserted");
                ev!(ctx, "insert byte {b} at {pos}");
            }
        }
    }
}

fn validate_term(t: &MTerm, strict: bool, pos: &str, out: &mut Vec<String>) {
    match t {
        MTerm::Iri(i) => {
            if strict {
                if Iri::new(i.as_str()).is_err() {
                    out.push(format!("{pos}: <{i}> is not a valid absolute IRI"));
                }
            } else if IriRef::new(i.as_str()).is_err() {
                out.push(format!("{pos}: <{i}> is not a valid IRI reference"));
            }
        }
        MTerm::Bnode(b) => {
            if BnodeId::new(b.as_str()).is_err() {
                out.push(format!("{pos}: _:{b} is not a valid blank node label"));
            }
        }
        MTerm::Lit(_, dt) => {
            if Iri::new(dt.as_str()).is_err() && (strict || IriRef::new(dt.as_str()).is_err()) {
                out.push(format!("{pos}: datatype <{dt}> is not a valid IRI"));
            }
        }
        MTerm::Lang(_, tag) => {
            if LanguageTag::new(tag.as_str()).is_err() {
                out.push(format!("{pos}: @{tag} is not a valid language tag"));
            }
        }
        MTerm::Var(v) => {
            if VarName::new(v.as_str()).is_err() {
                out.push(format!("{pos}: ?{v} is not a valid variable name"));
            }
        }
        MTerm::Triple(tr) => {
            for x in tr.iter() {
                validate_term(x, strict, pos, out);
            }
        }
    }
}

fn validate_items(fl: Flavour, items: &[MQuad]) -> Vec<String> {
    let mut out = vec![];
    for q in items {
        validate_term(&q.0[0], fl.strict(), "subject", &mut out);
        validate_term(&q.0[1], fl.strict(), "predicate", &mut out);
        validate_term(&q.0[2], fl.strict(), "object", &mut out);
        if let Some(g) = &q.1 {
            validate_term(g, fl.strict(), "graph name", &mut out);
        }
        if fl.strict() {
            // strict parsers yield strict RDF(-star) only
            let ok_s = matches!(q.0[0], MTerm::Iri(_) | MTerm::Bnode(_) | MTerm::Triple(_));
            let ok_p = matches!(q.0[1], MTerm::Iri(_));
            let ok_o = !matches!(q.0[2], MTerm::Var(_));
            let ok_g = matches!(q.1, None | Some(MTerm::Iri(_)) | Some(MTerm::Bnode(_)));
            if !(ok_s && ok_p && ok_o && ok_g) {
                out.push(format!("strict parser yielded a generalized statement: {}", fmt_quad(q)));
            }
        }
        if out.len() > 4 {
            break;
        }
    }
    out
}

pub fn run_c08(ctx: &mut Ctx) -> Verdict {
    let hs = ctx.tape.draw(1 << 32);
    let fl = FLAVOURS[ctx.tape.below(FLAVOURS.len())];
    let base: Option<&str> = if matches!(fl, Flavour::Turtle | Flavour::Trig | Flavour::Gtrig | Flavour::Xml)
        && ctx.tape.flag()
    {
        // (valid absolute IRIs: with and without path, query, fragment; non-ASCII before and
        // after the fragment delimiter)
        Some(
            [
                "http://example.org/base/doc",
                "http://example.org",
                "urn:x:base",
                "http://[::1]/a/b?q#f",
                "http://example.org/caf\u{e9}#top",
                "http://ex\u{e4}mple.org/a%C3%A9#top",
                "http://example.org/\u{e9}/\u{fc}?q=\u{f6}#\u{df}",
                "http://example.org/\u{4e2d}\u{6587}/#",
            ][ctx.tape.below(8)],
        )
    } else {
        None
    };
    ctx.sig(fl.name());
    // JSON-LD parser options: the defaults half of the time
    let jopts = if fl == Flavour::JsonLd && ctx.tape.flag() { ctx.tape.below(16) as u8 } else { 0 };
    JSONLD_OPTS.store(jopts, std::sync::atomic::Ordering::Relaxed);
    if jopts != 0 {
        ctx.probe("jsonld_parser_non_default_options");
        ctx.sig_u(u64::from(jopts));
    }
    let (mut doc, origin, depth) = base_document2(ctx, fl, hs);
    ctx.probe(match origin {
        "serialized" => "doc_from_real_serializer",
        "corpus" => "doc_from_corpus",
        "foreign_corpus" => "doc_of_another_syntax",
        "deep_nesting" => "doc_deep_nesting",
        "iri_stress" => "doc_valid_text_around_random_iris",
        "tiny" => "doc_tiny_byte_string",
        _ => "doc_long_token",
    });
    ctx.sig(origin);
    let before = ctx.faults.len();
    corrupt(ctx, &mut doc);
    if ctx.faults.len() > before {
        ctx.fault_in_op = true;
    }
    let n_corruptions = ctx.faults.len() - before;
    let generalized_asked = jopts & 2 != 0;
    let jopts_txt = if fl == Flavour::JsonLd {
        format!(" ordered={} generalized={} mode={} base={}", jopts & 1 != 0, generalized_asked, if jopts & 4 != 0 { "1.0" } else { "1.1" }, jopts & 8 != 0)
    } else {
        String::new()
    };
    simcore::driver::set_panic_context(&format!(
        "parser={}{jopts_txt} origin={origin} {}",
        fl.name(),
        if n_corruptions == 0 && matches!(origin, "serialized" | "corpus" | "iri_stress") { "doc=valid" } else { "doc=hostile" }
    ));
    let kinds: Vec<&'static str> = ctx.faults.keys().copied().collect();
    for k in kinds {
        ctx.sig(k);
    }
    if std::str::from_utf8(&doc).is_err() {
        ctx.probe("doc_invalid_utf8");
    }
    ctx.ops += 4;
    ctx.sample(|| format!("parser {} base={base:?} origin={origin}; stored bytes ({}):\n{}", fl.name(), doc.len(), excerpt(&doc)));
    ev!(ctx, "doc {} bytes hash {:016x}", doc.len(), simcore::rng::fnv1a(&doc));
    if origin == "deep_nesting" || origin == "long_token" {
        simcore::driver::set_death_note(&format!(
            "parser={} origin={origin} bytes={} depth={depth}",
            fl.name(),
            doc.len()
        ));
    }

    // 1. one-shot delivery: must terminate without panic (the driver turns panics, process
    //    death and hangs into violations), every yielded term must be valid
    let r0 = SimReader::perfect(doc.clone());
    let h0 = r0.handle();
    let p0 = do_parse(fl, hs, base, r0);
    h0.absorb(ctx, false);
    ev!(ctx, "one-shot: {} items ok={}", p0.items.len(), p0.result.is_ok());
    ctx.probe(if p0.result.is_ok() { "parse_ok" } else { "parse_error" });
    if !p0.items.is_empty() {
        ctx.probe("items_yielded");
        if p0.result.is_err() {
            ctx.probe("items_yielded_before_error");
        }
    }
    if let Err(ParseFail::Sink(e)) = &p0.result {
        return Err(Violation::new(
            format!("infallible_sink_blamed/{}", fl.name()),
            format!("parser reported a SinkError although the consumer cannot fail: {e}"),
        ));
    }
    if fl == Flavour::JsonLd && !generalized_asked {
        // without produce_generalized_rdf the JSON-LD parser is a strict one
        if let Some(q) = p0.items.iter().find(|q| !matches!(q.0[1], MTerm::Iri(_)) || !matches!(q.0[0], MTerm::Iri(_) | MTerm::Bnode(_))) {
            return Err(Violation::new(
                "generalized_statement_not_asked_for/jsonld",
                format!("JSON-LD parser [{}] yielded a generalized statement: {}\nstored bytes:\n{}", jopts_txt.trim(), fmt_quad(q), excerpt(&doc)),
            ));
        }
    }
    if !p0.after_end.is_empty() {
        ctx.probe("items_yielded_when_polled_after_the_end");
    }
    let mut bad = validate_items(fl, &p0.items);
    bad.extend(validate_items(fl, &p0.after_end));
    if !bad.is_empty() {
        return Err(Violation::new(
            format!("invalid_term_yielded/{}", fl.name()),
            format!(
                "{}{jopts_txt} [{}]\nstored bytes:\n{}",
                bad.join("\n"),
                if n_corruptions == 0 && matches!(origin, "serialized" | "corpus" | "iri_stress") { "doc=valid" } else { "doc=hostile" },
                excerpt(&doc)
            ),
        ));
    }

    // 2. the same bytes over a noisy / failing channel
    let plan = draw_rplan(ctx, doc.len());
    if plan.noise.is_perfect() && plan.fail_at.is_none() && plan.max_chunk == 0 {
        return Ok(());
    }
    ev!(ctx, "rplan noise={:?} max_chunk={} fail_at={:?}", plan.noise.codes, plan.max_chunk, plan.fail_at);
    let r1 = SimReader::new(doc.clone(), plan.clone());
    let h1 = r1.handle();
    let p1 = do_parse(fl, hs, base, r1);
    let fam = fl.name();
    crate::rt::check_noisy_read(ctx, fam, fam, &p0, &p1, &h1, &plan, &doc, fl.hash_sensitive(), false, false)?;
    let mut bad = validate_items(fl, &p1.items);
    bad.extend(validate_items(fl, &p1.after_end));
    ensure!(
        bad.is_empty(),
        format!("invalid_term_yielded/{}", fl.name()),
        "{} [{}]",
        bad.join("\n"),
        if n_corruptions == 0 && matches!(origin, "serialized" | "corpus" | "iri_stress") { "doc=valid" } else { "doc=hostile" }
    );
    Ok(())
}

// ---------------------------------------------------------------------------------------------
// the enumerable part of C08's quantifier: EVERY single-edit mutation of the corpus documents

/// edits applied at one byte position: truncation, deletion, the 8 bit flips, insertion of
/// each structural byte
const EDITS_PER_POS: u64 = 1 + 1 + 8 + STRUCTURAL.len() as u64;

fn enum_table() -> &'static Vec<(Flavour, usize, u64)> {
    // (flavour, corpus document index, first case index of that document)
    static TABLE: std::sync::OnceLock<Vec<(Flavour, usize, u64)>> = std::sync::OnceLock::new();
    TABLE.get_or_init(|| {
        let mut t = vec![];
        let mut next = 0u64;
        for fl in FLAVOURS {
            for (i, d) in corpus_for(fl).iter().enumerate() {
                t.push((fl, i, next));
                next += (d.len() as u64 + 1) * EDITS_PER_POS;
            }
        }
        t.push((Flavour::Nt, usize::MAX, next)); // sentinel: total
        t
    })
}

pub fn enum_count() -> u64 {
    enum_table().last().map_or(0, |x| x.2)
}

pub fn run_enum(ctx: &mut Ctx, case: u64) -> Verdict {
    JSONLD_OPTS.store(0, std::sync::atomic::Ordering::Relaxed);
    let table = enum_table();
    let k = table.partition_point(|e| e.2 <= case) - 1;
    let (fl, di, first) = table[k];
    let base = corpus_for(fl)[di].as_bytes();
    let local = case - first;
    let pos = (local / EDITS_PER_POS) as usize;
    let edit = local % EDITS_PER_POS;
    let mut doc = base.to_vec();
    let what = match edit {
        0 => {
            doc.truncate(pos);
            "truncate".to_string()
        }
        1 => {
            if pos < doc.len() {
                doc.remove(pos);
            }
            "delete".to_string()
        }
        2..=9 => {
            if pos < doc.len() {
                doc[pos] ^= 1 << (edit - 2);
            }
            format!("flip bit {}", edit - 2)
        }
        _ => {
            let b = STRUCTURAL[(edit - 10) as usize];
            doc.insert(pos.min(doc.len()), b);
            format!("insert {:?}", b as char)
        }
    };
    ctx.sig(fl.name());
    ctx.ops += 4;
    ctx.fault("enumerated_single_edit");
    ctx.fault_in_op = true;
    let changed = doc != base;
    simcore::driver::set_panic_context(&format!(
        "parser={} origin=corpus[{di}] {}",
        fl.name(),
        if changed { "doc=hostile" } else { "doc=valid" }
    ));
    ev!(ctx, "enumerated case {case}: {} corpus[{di}] {what} at {pos}", fl.name());
    ctx.sample(|| format!("parser {} corpus document {di}: {what} at byte {pos}:\n{}", fl.name(), excerpt(&doc)));
    let hs = 0;
    for base_iri in [None, Some("http://example.org/base/doc")] {
        if base_iri.is_some() && !matches!(fl, Flavour::Turtle | Flavour::Trig | Flavour::Gtrig | Flavour::Xml) {
            continue;
        }
        let p0 = do_parse(fl, hs, base_iri, SimReader::perfect(doc.clone()));
        if let Err(ParseFail::Sink(e)) = &p0.result {
            return Err(Violation::new(
                format!("infallible_sink_blamed/{}", fl.name()),
                format!("parser reported a SinkError although the consumer cannot fail: {e}"),
            ));
        }
        let mut bad = validate_items(fl, &p0.items);
        bad.extend(validate_items(fl, &p0.after_end));
        if !bad.is_empty() {
            return Err(Violation::new(
                format!("invalid_term_yielded/{}", fl.name()),
                format!(
                    "{} [{}]\nstored bytes:\n{}",
                    bad.join("\n"),
                    if changed { "doc=hostile" } else { "doc=valid" },
                    excerpt(&doc)
                ),
            ));
        }
    }
    Ok(())
}
