//! The round-trip engine shared by C03, C04, C12, C18:
//! real serializer -> SimWriter -> bytes -> SimReader -> real parser, first over a perfect
//! channel (the twin, which is also the reference), then over a noisy / faulty one.

use crate::formats::*;
use simcore::ctx::{Ctx, Verdict, Violation};
use simcore::driver::on_fresh_thread;
use simcore::model::*;
use simcore::seams::*;
use simcore::{ensure, ev};
use std::collections::BTreeSet;

pub enum Expect {
    /// parse(serialize(D)) == D as a set, labels included
    Exact(BTreeSet<MQuad>),
    /// ... up to a bijection of blank node labels
    Iso(BTreeSet<MQuad>),
}

pub struct RtSpec<'a> {
    pub fmt: &'a dyn Format,
    pub input: &'a [MQuad],
    pub expect: Expect,
    /// the property promises success on this input (false: an error is a legal outcome)
    pub ser_must_succeed: bool,
    /// (document, number of statements that reached the serializer)
    pub doc_check: Option<&'a dyn Fn(&[u8], usize) -> Result<(), Violation>>,
    /// refines the oracle id of a round-trip mismatch (want, got) -> suffix
    pub classify: Option<&'a dyn Fn(&BTreeSet<MQuad>, &BTreeSet<MQuad>) -> Option<&'static str>>,
    pub hash_seed: u64,
}

pub fn excerpt(doc: &[u8]) -> String {
    let s = String::from_utf8_lossy(doc);
    if s.len() > 600 {
        let mut end = 600;
        while !s.is_char_boundary(end) {
            end -= 1;
        }
        format!("{}…[{} bytes]", &s[..end], doc.len())
    } else {
        s.to_string()
    }
}

pub fn family(fmt: &dyn Format) -> String {
    let n = fmt.name();
    n.split('/').next().unwrap_or("").to_string()
}

fn do_ser(fmt: &dyn Format, hs: u64, quads: &[MQuad], w: SimWriter, src: u8) -> SerResult {
    if fmt.hash_sensitive() {
        on_fresh_thread(hs, || fmt.serialize(quads, w, src))
    } else {
        fmt.serialize(quads, w, src)
    }
}

fn do_parse(fmt: &dyn Format, hs: u64, r: SimReader) -> Parsed {
    if fmt.hash_sensitive() {
        on_fresh_thread(hs, || fmt.parse(r))
    } else {
        fmt.parse(r)
    }
}

pub fn draw_wplan(ctx: &mut Ctx, doc_len: usize) -> WPlan {
    let t = &mut ctx.tape;
    let noise = Noise::draw(t, true);
    let mut plan = WPlan {
        noise,
        ..Default::default()
    };
    match t.draw(3) {
        0 => {}
        1 => {
            let off = match t.draw(8) {
                1 => 0,
                2 => doc_len,
                3 => doc_len.saturating_sub(1),
                _ => t.below(doc_len + 1),
            };
            plan.fail_at = Some(off);
        }
        _ => plan.fail_flush = true,
    }
    if plan.fail_at.is_some() || plan.fail_flush {
        plan.fault_id = 1 + t.draw(1000) as u32;
        plan.kind = Some(HARD_KINDS[t.below(HARD_KINDS.len())]);
    }
    if plan.fail_at.is_some() {
        plan.flush_ok_after_write_fault = ctx.tape.flag();
    }
    plan
}

pub fn draw_rplan(ctx: &mut Ctx, doc_len: usize) -> RPlan {
    let t = &mut ctx.tape;
    let noise = Noise::draw(t, true);
    let max_chunk = [0usize, 1, 2, 3, 5, 16, 64, 4096][t.below(8)];
    let mut plan = RPlan {
        noise,
        max_chunk,
        ..Default::default()
    };
    if t.draw(3) == 1 {
        let off = match t.draw(8) {
            1 => 0,
            2 => doc_len,
            3 => doc_len.saturating_sub(1),
            _ => t.below(doc_len + 1),
        };
        plan.fail_at = Some(off);
        plan.fault_id = 1 + t.draw(1000) as u32;
        plan.kind = Some(HARD_KINDS[t.below(HARD_KINDS.len())]);
    }
    plan
}

fn is_prefix(a: &[u8], b: &[u8]) -> bool {
    a.len() <= b.len() && &b[..a.len()] == a
}

/// Check the outcome of serializing through a noisy/faulty writer against the twin's output.
pub fn check_noisy_write(
    ctx: &mut Ctx,
    fam: &str,
    fname: &str,
    res: &SerResult,
    w: &SimWriter,
    doc: &[u8],
    same_meaning: Option<&dyn Fn(&[u8]) -> bool>,
) -> Verdict {
    let (accepted, hard, on_flush, calls, fault_id) = w.with(|s| {
        (
            s.accepted.clone(),
            s.hard_fired,
            s.hard_on_flush,
            s.calls + s.flushes,
            s.plan.fault_id,
        )
    });
    w.absorb(ctx);
    ev!(ctx, "write2 accepted={} hard={hard} on_flush={on_flush} calls={calls}", accepted.len());
    ensure!(
        calls <= 8 * doc.len() as u64 + 64,
        format!("no_progress/{fam}"),
        "{fname}: {calls} write/flush calls for a {}-byte document",
        doc.len()
    );
    if hard {
        ctx.sig(if on_flush { "w:flush_error" } else { "w:write_error" });
        ctx.sig_u((accepted.len() * 4 / doc.len().max(1)) as u64);
        match res {
            SerResult::Ok => {
                return Err(Violation::new(
                    format!("write_error_swallowed/{fam}"),
                    format!(
                        "{fname}: writer failed ({} after {} bytes, fault #{fault_id}) but the serializer returned Ok",
                        if on_flush { "flush" } else { "write" },
                        accepted.len()
                    ),
                ));
            }
            SerResult::Source(e) => {
                return Err(Violation::new(
                    format!("write_error_wrong_side/{fam}"),
                    format!("{fname}: sink fault #{fault_id} reported as SourceError: {e}"),
                ));
            }
            SerResult::Sink(e) => {
                if !chain_has_fault(e.as_ref(), fault_id) && debug_shows_fault(e.as_ref(), fault_id) {
                    ctx.probe("fault_identity_visible_only_in_debug");
                }
                ensure!(
                    chain_has_fault(e.as_ref(), fault_id) || debug_shows_fault(e.as_ref(), fault_id),
                    format!("write_error_identity/{fam}"),
                    "{fname}: SinkError does not carry the injected fault #{fault_id}: {e:?}"
                );
            }
        }
        ensure!(
            is_prefix(&accepted, doc),
            format!("write_error_not_prefix/{fam}"),
            "{fname}: bytes accepted before the fault are not a prefix of the fault-free output\naccepted: {}\nfault-free: {}",
            excerpt(&accepted),
            excerpt(doc)
        );
    } else {
        match res {
            SerResult::Ok => {}
            SerResult::Sink(e) | SerResult::Source(e) => {
                return Err(Violation::new(
                    format!("benign_write_failed/{fam}"),
                    format!("{fname}: only short writes / EINTR were injected, yet the serializer failed: {e}"),
                ));
            }
        }
        if accepted != doc
            && accepted.len() == doc.len()
            && same_meaning.is_some_and(|f| f(&accepted))
        {
            // a hash-order-sensitive serializer emitted the same content in another order
            // (residual RandomState drift inside a dependency); not a property violation
            ctx.probe("order_only_difference_tolerated");
        } else if accepted != doc {
            let oracle = if is_prefix(&accepted, doc) {
                "ack_lost"
            } else {
                "write_noise_changes_output"
            };
            return Err(Violation::new(
                format!("{oracle}/{fam}"),
                format!(
                    "{fname}: serializer returned Ok but the writer holds {} of {} bytes (short writes / EINTR only)\naccepted: {}\nfault-free: {}",
                    accepted.len(),
                    doc.len(),
                    excerpt(&accepted),
                    excerpt(doc)
                ),
            ));
        }
    }
    Ok(())
}

/// Check the outcome of parsing through a noisy/faulty reader against the twin's parse.
pub fn check_noisy_read(
    ctx: &mut Ctx,
    fam: &str,
    fname: &str,
    p0: &Parsed,
    p1: &Parsed,
    h: &RHandle,
    plan: &RPlan,
    doc: &[u8],
    order_insensitive: bool,
    identity_required: bool,
    equal_to_twin_required: bool,
) -> Verdict {
    let (hard, calls) = h.with(|s| (s.hard_fired, s.calls));
    h.absorb(ctx, plan.fail_at.is_some());
    ev!(ctx, "read2 items={} hard={hard} calls={calls} ok={}", p1.items.len(), p1.result.is_ok());
    ensure!(
        calls <= 8 * doc.len() as u64 + 64,
        format!("no_progress/{fam}"),
        "{fname}: {calls} read calls for a {}-byte document",
        doc.len()
    );
    if hard {
        ctx.sig("r:read_error");
        ctx.sig_u((plan.fail_at.unwrap_or(0) * 4 / doc.len().max(1)) as u64);
        match &p1.result {
            Ok(()) => {
                return Err(Violation::new(
                    format!("read_error_swallowed/{fam}"),
                    format!(
                        "{fname}: reader failed at byte {:?} (fault #{}) but the parser reported success with {} of {} items",
                        plan.fail_at,
                        plan.fault_id,
                        p1.items.len(),
                        p0.items.len()
                    ),
                ));
            }
            Err(ParseFail::Sink(e)) => {
                return Err(Violation::new(
                    format!("read_error_wrong_side/{fam}"),
                    format!("{fname}: source fault reported as SinkError: {e}"),
                ));
            }
            Err(ParseFail::Source(e)) => {
                if !chain_has_fault(e.as_ref(), plan.fault_id) && debug_shows_fault(e.as_ref(), plan.fault_id) {
                    ctx.probe("fault_identity_visible_only_in_debug");
                }
                ensure!(
                    !identity_required
                        || chain_has_fault(e.as_ref(), plan.fault_id)
                        || debug_shows_fault(e.as_ref(), plan.fault_id),
                    format!("read_error_identity/{fam}"),
                    "{fname}: SourceError does not carry the injected fault #{}: {e:?}",
                    plan.fault_id
                );
            }
        }
        ensure!(
            order_insensitive
                || !equal_to_twin_required
                || (p1.items.len() <= p0.items.len() && p1.items[..] == p0.items[..p1.items.len()]),
            format!("read_error_not_prefix/{fam}"),
            "{fname}: items delivered before the read fault are not a prefix of the fault-free delivery"
        );
    } else {
        let same_verdict = p0.result.is_ok() == p1.result.is_ok();
        let same_items = p0.items == p1.items
            || (order_insensitive
                && p0.items.len() == p1.items.len()
                && isomorphic(
                    &p0.items.iter().cloned().collect(),
                    &p1.items.iter().cloned().collect(),
                )
                .is_yes());
        if !equal_to_twin_required {
            // C08 does not promise delivery independence (only totality): count, do not flag
            if !(same_verdict && same_items) {
                ctx.probe("delivery_dependent_result_(not_a_violation_of_totality)");
            }
            return Ok(());
        }
        ensure!(
            same_verdict && same_items,
            format!("read_noise_changes_result/{fam}"),
            "{fname}: chunked / interrupted delivery (max_chunk={}, noise={:?}) changed the parse: {} items ok={} vs {} items ok={} one-shot{}\ndoc: {}",
            plan.max_chunk,
            plan.noise.codes,
            p1.items.len(),
            p1.result.is_ok(),
            p0.items.len(),
            p0.result.is_ok(),
            match &p1.result { Err(ParseFail::Source(e)) | Err(ParseFail::Sink(e)) => format!(" error: {e}"), _ => String::new() },
            excerpt(doc)
        );
    }
    Ok(())
}

pub fn run_roundtrip(ctx: &mut Ctx, spec: &RtSpec<'_>) -> Verdict {
    let fmt = spec.fmt;
    let fam = family(fmt);
    let fname = fmt.name();
    let hs = spec.hash_seed;
    ctx.sig(&fname);
    ctx.ops += spec.input.len() as u64;
    for q in spec.input {
        let k = |t: &MTerm| t.kind() as u64 + 1;
        ctx.sig_u(k(&q.0[0]) | k(&q.0[1]) << 4 | k(&q.0[2]) << 8 | q.1.as_ref().map_or(0, k) << 12);
    }
    ctx.sample(|| format!("format {fname}; input:\n{}", fmt_quads(spec.input)));

    // where the statements come from: an iterator, a Vec-backed store or an indexed store
    let src = ctx.tape.draw(3) as u8;
    ctx.sig_u(u64::from(src));
    ctx.probe(["source_is_iterator", "source_is_vec_store", "source_is_fast_store"][src as usize]);
    let statements = if src == 2 {
        spec.input
            .iter()
            .map(simcore::r#gen::norm_quad)
            .collect::<BTreeSet<_>>()
            .len()
    } else {
        spec.input.len()
    };
    // 1. the fault-free twin
    let w0 = SimWriter::perfect();
    let r0 = do_ser(fmt, hs, spec.input, w0.handle(), src);
    let doc = w0.accepted();
    w0.absorb(ctx);
    ev!(ctx, "twin serialize {} quads -> {} bytes", spec.input.len(), doc.len());
    match &r0 {
        SerResult::Ok => {}
        SerResult::Source(e) => {
            return Err(Violation::new(
                format!("ser_source_error/{fam}"),
                format!("{fname}: infallible source reported as failing: {e}"),
            ));
        }
        SerResult::Sink(e) => {
            if spec.ser_must_succeed {
                return Err(Violation::new(
                    format!("ser_error/{fam}"),
                    format!(
                        "{fname}: serializer failed on a perfect writer: {e}\ninput:\n{}",
                        fmt_quads(spec.input)
                    ),
                ));
            }
            ctx.probe("serializer_refused_input");
            ctx.sig("refused");
            return Ok(());
        }
    }
    ctx.sample(|| format!("document:\n{}", excerpt(&doc)));
    if let Some(check) = spec.doc_check {
        check(&doc, statements)?;
    }

    // 2. parse it back over a perfect channel
    let p0 = do_parse(fmt, hs, SimReader::perfect(doc.clone()));
    if let Err(e) = &p0.result {
        let e = match e {
            ParseFail::Source(e) | ParseFail::Sink(e) => e,
        };
        return Err(Violation::new(
            format!("reparse_error/{fam}"),
            format!(
                "{fname}: the serializer's own output does not parse: {e}\ndocument:\n{}\ninput:\n{}",
                excerpt(&doc),
                fmt_quads(spec.input)
            ),
        ));
    }
    let got: BTreeSet<MQuad> = p0.items.iter().cloned().collect();
    match &spec.expect {
        Expect::Exact(want) => {
            if &got != want {
                let missing: Vec<_> = want.difference(&got).take(3).map(fmt_quad).collect();
                let extra: Vec<_> = got.difference(want).take(3).map(fmt_quad).collect();
                return Err(Violation::new(
                    format!("roundtrip_mismatch/{fam}"),
                    format!(
                        "{fname}: parse(serialize(D)) != D; lost: {missing:?}; invented: {extra:?}\ndocument:\n{}",
                        excerpt(&doc)
                    ),
                ));
            }
        }
        Expect::Iso(want) => {
            if let Iso::No(why) = isomorphic(want, &got) {
                let suffix = spec
                    .classify
                    .and_then(|c| c(want, &got))
                    .map(|s| format!("/{s}"))
                    .unwrap_or_default();
                return Err(Violation::new(
                    format!("roundtrip_mismatch/{fam}{suffix}"),
                    format!(
                        "{fname}: parse(serialize(D)) is not isomorphic to D ({why})\nexpected:\n{}got:\n{}document:\n{}",
                        fmt_quads(want),
                        fmt_quads(&got),
                        excerpt(&doc)
                    ),
                ));
            }
        }
    }
    if p0.items.len() != got.len() {
        ctx.probe("reparse_yields_duplicates");
    }

    // 3. noisy / faulty writer
    let wplan = draw_wplan(ctx, doc.len());
    if !(wplan.noise.is_perfect() && wplan.fail_at.is_none() && !wplan.fail_flush) {
        ev!(ctx, "wplan noise={:?} fail_at={:?} fail_flush={} id={} kind={:?}", wplan.noise.codes, wplan.fail_at, wplan.fail_flush, wplan.fault_id, wplan.kind);
        ctx.sample(|| format!("writer plan: noise={:?} fail_at={:?} fail_flush={}", wplan.noise.codes, wplan.fail_at, wplan.fail_flush));
        let w1 = SimWriter::new(wplan);
        let r1 = do_ser(fmt, hs, spec.input, w1.handle(), src);
        let p0set: BTreeSet<MQuad> = p0.items.iter().cloned().collect();
        let same = |bytes: &[u8]| -> bool {
            let p = do_parse(fmt, hs, SimReader::perfect(bytes.to_vec()));
            p.result.is_ok()
                && isomorphic(&p0set, &p.items.iter().cloned().collect()).is_yes()
        };
        check_noisy_write(
            ctx,
            &fam,
            &fname,
            &r1,
            &w1,
            &doc,
            if fmt.hash_sensitive() { Some(&same) } else { None },
        )?;
    }

    // 4. noisy / faulty reader
    let rplan = draw_rplan(ctx, doc.len());
    if !(rplan.noise.is_perfect() && rplan.fail_at.is_none() && rplan.max_chunk == 0) {
        ev!(ctx, "rplan noise={:?} max_chunk={} fail_at={:?} id={}", rplan.noise.codes, rplan.max_chunk, rplan.fail_at, rplan.fault_id);
        ctx.sample(|| format!("reader plan: noise={:?} max_chunk={} fail_at={:?}", rplan.noise.codes, rplan.max_chunk, rplan.fail_at));
        let rd = SimReader::new(doc.clone(), rplan.clone());
        let h = rd.handle();
        let p1 = do_parse(fmt, hs, rd);
        check_noisy_read(ctx, &fam, &fname, &p0, &p1, &h, &rplan, &doc, fmt.hash_sensitive(), true, true)?;
    }
    Ok(())
}
